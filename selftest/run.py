#!/usr/bin/env python3
"""Must-fail corpus runner. Each mutant in mutants.json is an exact textual replacement
(file, [after-anchor], old, new) applied to a scratch copy of /repo's working tree (under /dev/shm, removed
afterwards). The mutant must still build; `govc check <prop>` on it must report a VIOLATION whose line matches
the expected obligation regex (and be replayed on the real code where replay == "y").
Usage: selftest/run.py [--prop Cxx] [--jobs N] [name-substring]"""
import json, os, re, subprocess, sys, shutil, tempfile, concurrent.futures as cf

ROOT = os.path.dirname(os.path.abspath(__file__))
ENV = dict(os.environ, GOFLAGS="-mod=mod", GOPROXY="off", GOSUMDB="off", GOTOOLCHAIN="local")

def apply(repo, m):
    p = os.path.join(repo, m["file"])
    s = open(p).read()
    start = 0
    if m.get("after"):
        start = s.find(m["after"])
        if start < 0:
            return "anchor not found"
    i = s.find(m["old"], start)
    if i < 0:
        return "old text not found"
    s = s[:i] + m["new"] + s[i + len(m["old"]):]
    open(p, "w").write(s)
    return None

def run_one(m):
    base = "/dev/shm" if os.path.isdir("/dev/shm") else tempfile.gettempdir()
    d = tempfile.mkdtemp(prefix="govc-mut-", dir=base)
    try:
        repo = os.path.join(d, "repo")
        shutil.copytree("/repo", repo, ignore=shutil.ignore_patterns(".git"))
        err = apply(repo, m)
        if err:
            return m, "APPLY-FAILED", err
        r = subprocess.run(["go", "build", "./..."], cwd=repo, env=ENV, capture_output=True, text=True)
        if r.returncode != 0:
            return m, "BUILD-FAILED", r.stderr
        shutil.copy(os.path.join(ROOT, "..", "known_findings.txt"), d)
        env = dict(ENV, GOVC_VERIF_DIR=d)
        r = subprocess.run(["/verif/bin/govc", "check", m["prop"], "--repo", repo, "--no-evidence"], env=env, capture_output=True, text=True)
        out = r.stdout + r.stderr
        viol = [l for l in out.splitlines() if l.startswith("VIOLATION")]
        hit = [l for l in viol if re.search(m["expect"], l)]
        if r.returncode == 1 and hit:
            if m.get("replay") == "y" and not any("reproduced-on-real-code" in l for l in hit):
                return m, "DETECTED-BUT-NOT-REPLAYED", "\n".join(viol)
            return m, "ok", "\n".join(hit)
        return m, "MISSED", out[-1500:]
    finally:
        shutil.rmtree(d, ignore_errors=True)

def main():
    args = sys.argv[1:]
    prop, jobs, sub = None, 4, None
    while args:
        a = args.pop(0)
        if a == "--prop":
            prop = args.pop(0)
        elif a == "--jobs":
            jobs = int(args.pop(0))
        else:
            sub = a
    ms = json.load(open(os.path.join(ROOT, "mutants.json")))
    ms = [m for m in ms if (not prop or m["prop"] == prop) and (not sub or sub in m["name"])]
    bad = 0
    with cf.ThreadPoolExecutor(jobs) as ex:
        for m, status, detail in ex.map(run_one, ms):
            print(f"{status:28s} {m['prop']} {m['name']}")
            if status != "ok":
                bad += 1
                print("    " + detail.replace("\n", "\n    "))
    print(f"selftest: {len(ms)-bad}/{len(ms)} mutants detected as expected")
    sys.exit(1 if bad else 0)

main()
