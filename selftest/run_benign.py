#!/usr/bin/env python3
"""Must-pass corpus: property-preserving refactorings (selftest/benign/*.diff: renamed locals and results, extracted
helpers, reordered independent statements and checks, equivalent bit operations, added logging, named constants).
Each is applied to a scratch copy of /repo's working tree; the library must still build and pass its suite, and NO
check may print a VIOLATION line (exit 0 for every claimed property). A line here is a false alarm.
Usage: selftest/run_benign.py [--jobs N] [name-substring]"""
import json, os, subprocess, sys, shutil, tempfile, glob, concurrent.futures as cf

ROOT = os.path.dirname(os.path.abspath(__file__))
ENV = dict(os.environ, GOFLAGS="-mod=mod", GOPROXY="off", GOSUMDB="off", GOTOOLCHAIN="local")
PROPS = [c["property_id"] for c in json.load(open(os.path.join(ROOT, "..", "MANIFEST.json")))["checks"]]

def run_one(diff):
    name = os.path.basename(diff)[:-5]
    d = tempfile.mkdtemp(prefix="govc-benign-", dir="/dev/shm" if os.path.isdir("/dev/shm") else None)
    try:
        repo = os.path.join(d, "repo")
        shutil.copytree("/repo", repo, ignore=shutil.ignore_patterns(".git"))
        r = subprocess.run(["git", "apply", diff], cwd=repo, capture_output=True, text=True)
        if r.returncode != 0:
            return name, "APPLY-FAILED", r.stderr[:300]
        r = subprocess.run(["go", "test", "-vet=off", "-count=1", "./openflow13/", "./protocol/"], cwd=repo, env=ENV, capture_output=True, text=True)
        if r.returncode != 0:
            return name, "SUITE-FAILED", (r.stdout + r.stderr)[-400:]
        shutil.copy(os.path.join(ROOT, "..", "known_findings.txt"), d)
        alarms = []
        for p in PROPS:
            r = subprocess.run(["/verif/bin/govc", "check", p, "--repo", repo, "--no-evidence"], env=dict(ENV, GOVC_VERIF_DIR=d), capture_output=True, text=True)
            out = r.stdout + r.stderr
            viol = [l for l in out.splitlines() if l.startswith("VIOLATION")]
            if r.returncode != 0 or viol:
                alarms.append("%s exit=%d %s" % (p, r.returncode, " | ".join(v.split("obligation=")[-1] for v in viol[:3])))
        return name, "FALSE-ALARM" if alarms else "ok", "\n".join(alarms)
    finally:
        shutil.rmtree(d, ignore_errors=True)

def main():
    args = sys.argv[1:]
    jobs, sub = 3, None
    while args:
        a = args.pop(0)
        if a == "--jobs":
            jobs = int(args.pop(0))
        else:
            sub = a
    diffs = sorted(glob.glob(os.path.join(ROOT, "benign", "*.diff")))
    if sub:
        diffs = [d for d in diffs if sub in d]
    bad = 0
    with cf.ThreadPoolExecutor(max_workers=jobs) as ex:
        for name, st, detail in ex.map(run_one, diffs):
            print("%-14s %s" % (st, name))
            if st != "ok":
                bad += 1
                print("    " + detail.replace("\n", "\n    "))
    print("benign corpus: %d/%d without alarm" % (len(diffs) - bad, len(diffs)))
    sys.exit(1 if bad else 0)

main()
