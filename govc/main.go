package main

import (
	"encoding/json"
	"flag"
	"fmt"
	"go/types"
	"os"
	"path/filepath"
	"regexp"
	"runtime"
	"sort"
	"strconv"
	"strings"
	"sync"
	"time"

	"golang.org/x/tools/go/ssa"
)

var verifDir = "/verif"

func main() {
	if len(os.Args) < 2 {
		fmt.Fprintln(os.Stderr, "usage: govc check <Cxx> [--tier quick|thorough] [--repo dir] | verify <regex> | list | ext | replay <file>")
		os.Exit(2)
	}
	defer cleanupScratch()
	if d := os.Getenv("GOVC_VERIF_DIR"); d != "" {
		verifDir = d
	}
	switch os.Args[1] {
	case "check":
		os.Exit(cmdCheck(os.Args[2:]))
	case "verify":
		os.Exit(cmdVerify(os.Args[2:]))
	case "list":
		os.Exit(cmdList(os.Args[2:]))
	case "ext":
		os.Exit(cmdExt(os.Args[2:]))
	case "impls":
		os.Exit(cmdImpls(os.Args[2:]))
	case "replay":
		os.Exit(cmdReplay(os.Args[2:]))
	case "selftest":
		os.Exit(cmdSelftest(os.Args[2:]))
	}
	fmt.Fprintln(os.Stderr, "unknown command", os.Args[1])
	os.Exit(2)
}

func load(repo string) *Loaded {
	L, err := loadRepo(repo)
	if err != nil {
		fmt.Fprintln(os.Stderr, "load failed:", err)
		cleanupScratch()
		os.Exit(3)
	}
	L.Contracts = loadContracts(L)
	return L
}

// ---------- solving ----------

func solveAll(obs []*Oblig, timeoutS int, mode string) {
	var wg sync.WaitGroup
	sem := make(chan struct{}, runtime.NumCPU())
	// scripts are built sequentially (term tables are not thread-safe for construction, reading is)
	for _, o := range obs {
		if o.Status != "" {
			continue // decided by a scan
		}
		if o.Cover {
			if len(o.Hyps) == 0 {
				o.Status, o.Backend = "proved", "simplifier"
				continue
			}
		} else {
			if o.Goal.IsTrue() {
				o.Status, o.Backend = "proved", "simplifier"
				continue
			}
			inPC := false
			for _, h := range o.Hyps {
				if h == o.Goal {
					inPC = true
				}
				if h.IsFalse() {
					inPC = true
				}
			}
			if inPC {
				o.Status, o.Backend = "proved", "simplifier"
				continue
			}
		}
		if !o.Cover {
			// equality propagation: hypotheses of the form t == const are substituted into the goal
			if g2 := propagateEqs(o.Hyps, o.Goal); g2 != o.Goal {
				if g2.IsTrue() {
					o.Status, o.Backend = "proved", "simplifier"
					continue
				}
			}
		}
		var script string
		if o.Cover {
			script = Script(o.Hyps, nil, nil)
		} else {
			script = Script(o.Hyps, o.Goal, nil)
		}
		if len(script) > 4<<20 {
			o.Status, o.Output = "undecided", "script too large"
			continue
		}
		wg.Add(1)
		go func(o *Oblig, script string) {
			defer wg.Done()
			sem <- struct{}{}
			defer func() { <-sem }()
			r := Solve(script, timeoutS, 0, mode)
			o.Backend, o.Seconds, o.Output = r.Backend, r.Seconds, r.Output
			want := "unsat"
			if o.Cover {
				want = "sat"
			}
			switch {
			case r.Status == want:
				o.Status = "proved"
			case r.Status == "sat" || r.Status == "unsat":
				o.Status = "refuted"
			default:
				o.Status = "undecided"
				if len(o.Output) > 2000 {
					o.Output = o.Output[:2000]
				}
			}
		}(o, script)
	}
	wg.Wait()
	// robustness against machine load: obligations left undecided (time-out) are retried one at a time with a
	// long time limit before they are reported
	for _, o := range obs {
		if o.Status != "undecided" || o.Output == "script too large" {
			continue
		}
		var script string
		if o.Cover {
			script = Script(o.Hyps, nil, nil)
		} else {
			script = Script(o.Hyps, o.Goal, nil)
		}
		r := Solve(script, 90, 0, "first")
		want := "unsat"
		if o.Cover {
			want = "sat"
		}
		o.Backend, o.Seconds, o.Output = r.Backend+"(retry)", o.Seconds+r.Seconds, r.Output
		switch {
		case r.Status == want:
			o.Status = "proved"
		case r.Status == "sat" || r.Status == "unsat":
			o.Status = "refuted"
		}
	}
}

// propagateEqs substitutes, in goal, every non-constant term t for which a hypothesis t == c (c constant)
// exists, rebuilding through the simplifying constructors.
func propagateEqs(hyps []*Term, goal *Term) *Term {
	sub := map[int]*Term{}
	for _, h := range hyps {
		if h.Op == "=" && len(h.Args) == 2 {
			a, b := h.Args[0], h.Args[1]
			if b.IsConst() && !a.IsConst() && a.S.K != SArr {
				sub[a.id] = b
			} else if a.IsConst() && !b.IsConst() && b.S.K != SArr {
				sub[b.id] = a
			}
		}
	}
	if len(sub) == 0 {
		return goal
	}
	memo := map[int]*Term{}
	var walk func(t *Term) *Term
	walk = func(t *Term) *Term {
		if r, ok := sub[t.id]; ok {
			return r
		}
		if r, ok := memo[t.id]; ok {
			return r
		}
		r := t
		if len(t.Args) > 0 {
			args := make([]*Term, len(t.Args))
			changed := false
			for i, a := range t.Args {
				args[i] = walk(a)
				if args[i] != a {
					changed = true
				}
			}
			if changed {
				switch t.Op {
				case "app":
					r = App(t.Name, t.S, args...)
				case "select":
					r = Select(args[0], args[1])
				default:
					r = rebuild(t, args)
				}
			}
		}
		memo[t.id] = r
		return r
	}
	return walk(goal)
}

// ---------- grouping ----------

type OblGroup struct {
	Name      string
	Class     string
	Func      string
	Clause    string
	Pos       string
	Instances []*Oblig
	Status    string // proved / refuted / undecided
	Backend   string
	Seconds   float64
	Known     *Finding
}

func groupObligs(obs []*Oblig) []*OblGroup {
	m := map[string]*OblGroup{}
	var order []*OblGroup
	for _, o := range obs {
		g := m[o.Name]
		if g == nil {
			g = &OblGroup{Name: o.Name, Class: o.Class, Func: o.Func, Clause: o.Clause, Pos: o.Pos}
			m[o.Name] = g
			order = append(order, g)
		}
		g.Instances = append(g.Instances, o)
	}
	for _, g := range order {
		g.Status = "proved"
		bes := map[string]bool{}
		for _, o := range g.Instances {
			g.Seconds += o.Seconds
			bes[o.Backend] = true
			if o.Status == "refuted" {
				g.Status = "refuted"
			} else if o.Status != "proved" && g.Status != "refuted" {
				g.Status = "undecided"
			}
		}
		var bl []string
		for b := range bes {
			if b != "" {
				bl = append(bl, b)
			}
		}
		sort.Strings(bl)
		g.Backend = strings.Join(bl, ",")
	}
	return order
}

// ---------- known findings ----------

type Finding struct {
	Kind       string // finding | fixed
	Property   string
	Obligation string
	Note       string
	used       bool
}

func loadFindings() []*Finding {
	data, err := os.ReadFile(filepath.Join(verifDir, "known_findings.txt"))
	if err != nil {
		return nil
	}
	var out []*Finding
	re := regexp.MustCompile(`^(finding|fixed):\s+property=(C\d+)\s+(?:commit=\S+\s+)?obligation=(\S+)\s*(.*)$`)
	for _, ln := range strings.Split(string(data), "\n") {
		ln = strings.TrimSpace(ln)
		if m := re.FindStringSubmatch(ln); m != nil {
			out = append(out, &Finding{Kind: m[1], Property: m[2], Obligation: m[3], Note: m[4]})
		}
	}
	return out
}

// ---------- property configuration ----------

// classes of obligations that decide each property (prefix match on class). Empty = all classes.
var propClasses = map[string][]string{}

func classAllowed(prop, class string) bool {
	cs := propClasses[prop]
	if len(cs) == 0 {
		return true
	}
	for _, c := range cs {
		if strings.HasPrefix(class, c) {
			return true
		}
	}
	return false
}

func hasProp(ps []string, p string) bool {
	for _, x := range ps {
		if x == p {
			return true
		}
	}
	return false
}

// ---------- check ----------

type Evidence struct {
	PropertyID  string                 `json:"property_id"`
	Tier        string                 `json:"tier"`
	Seed        int                    `json:"seed"`
	Level       string                 `json:"level"`
	Coverage    map[string]interface{} `json:"coverage"`
	Assumptions []string               `json:"assumptions"`
	WallS       float64                `json:"wall_s"`
	Violations  int                    `json:"violations"`
}

func cmdCheck(args []string) int {
	fs := flag.NewFlagSet("check", flag.ExitOnError)
	tier := fs.String("tier", "quick", "quick|thorough")
	repo := fs.String("repo", "/repo", "repository directory")
	verbose := fs.Bool("v", false, "verbose")
	noEvidence := fs.Bool("no-evidence", false, "do not write the evidence file (selftest)")
	if len(args) < 1 {
		fmt.Fprintln(os.Stderr, "check <Cxx>")
		return 2
	}
	prop := args[0]
	fs.Parse(args[1:])
	if t := os.Getenv("VERIF_TIER"); t == "quick" || t == "thorough" {
		*tier = t
	}
	seed, _ := strconv.Atoi(os.Getenv("VERIF_SEED"))
	start := time.Now()
	L := load(*repo)
	db := L.Contracts

	var results []*FuncResult
	var all []*Oblig
	for _, fc := range db.Order {
		if !hasProp(fc.Props, prop) || fc.Trusted {
			continue
		}
		r := verifyFunc(L, fc.Fn, fc)
		results = append(results, r)
		for _, o := range r.Obligs {
			if o.Props != nil && !hasProp(o.Props, prop) {
				continue
			}
			if o.Class != "cover" && !classAllowed(prop, o.Class) {
				continue
			}
			all = append(all, o)
		}
	}
	if hook, ok := propHooks[prop]; ok {
		all = append(all, hook(L)...)
	}
	timeout := 10
	mode := "first"
	if *tier == "thorough" {
		timeout = 120
		mode = "agree"
	}
	solveAll(all, timeout, mode)
	groups := groupObligs(all)

	findings := loadFindings()
	fmap := map[string]*Finding{}
	for _, f := range findings {
		if f.Kind == "finding" && f.Property == prop {
			fmap[f.Obligation] = f
		}
	}
	violations := 0
	var lines []string
	// contract drift / parse errors and out-of-subset functions are failures of named obligations
	type synthetic struct{ name, detail string }
	var synth []synthetic
	for _, e := range db.Errors {
		synth = append(synth, synthetic{"contracts/" + sanitize(e), e})
	}
	for _, r := range results {
		for _, e := range r.Errs {
			synth = append(synth, synthetic{r.Key + "/engine/not-verified", e})
		}
	}
	nObl, nDis, nKnown := 0, 0, 0
	byBackend := map[string]int{}
	var solverS, maxQ float64
	covers := 0
	for _, g := range groups {
		for _, o := range g.Instances {
			solverS += o.Seconds
			if o.Seconds > maxQ {
				maxQ = o.Seconds
			}
		}
		if g.Class == "cover" {
			if g.Status == "proved" {
				covers++
			} else {
				fmt.Printf("VACUOUS: %s (%s): preconditions unsatisfiable or undecided\n", g.Name, g.Status)
				violations++
				lines = append(lines, reportViolation(L, prop, g, *repo))
			}
			continue
		}
		if f, ok := fmap[g.Name]; ok {
			f.used = true
			g.Known = f
			if g.Status == "proved" {
				// a listed finding that no longer fails: report, do not fail the check
				fmt.Printf("NOTE: known finding no longer reproduces: property=%s %s\n", prop, g.Name)
				nObl++
				nDis++
				byBackend[g.Backend]++
			} else {
				nKnown++
				fmt.Printf("KNOWN-FINDING: property=%s %s %s\n", prop, g.Name, f.Note)
			}
			continue
		}
		nObl++
		if g.Status == "proved" {
			nDis++
			byBackend[g.Backend]++
			continue
		}
		violations++
		lines = append(lines, reportViolation(L, prop, g, *repo))
	}
	for _, s := range synth {
		nObl++
		violations++
		g := &OblGroup{Name: s.name, Class: "engine", Status: "undecided", Clause: s.detail}
		lines = append(lines, reportViolation(L, prop, g, *repo))
	}
	// floor
	if pd := db.Props[prop]; pd != nil && nObl+nKnown < pd.Min {
		violations++
		g := &OblGroup{Name: "floor/" + prop, Class: "engine", Status: "undecided", Clause: fmt.Sprintf("only %d obligations generated, floor is %d (contracts missing or functions lost)", nObl+nKnown, pd.Min)}
		lines = append(lines, reportViolation(L, prop, g, *repo))
	} else if pd == nil || len(results) == 0 && propHooks[prop] == nil {
		violations++
		g := &OblGroup{Name: "floor/" + prop, Class: "engine", Status: "undecided", Clause: "no property declaration / no functions under contract for this property"}
		lines = append(lines, reportViolation(L, prop, g, *repo))
	}
	for _, l := range lines {
		fmt.Println(l)
	}
	wall := time.Since(start).Seconds()
	// evidence
	var fnames, inlined, assumed, oos []string
	inl := map[string]bool{}
	asm := map[string]bool{}
	for _, r := range results {
		fnames = append(fnames, r.Key)
		for _, x := range r.Inlined {
			inl[x] = true
		}
		for _, x := range r.Assumed {
			asm[x] = true
		}
		for _, e := range r.Errs {
			oos = append(oos, r.Key+": "+e)
		}
	}
	for k := range inl {
		inlined = append(inlined, k)
	}
	for k := range asm {
		assumed = append(assumed, k)
	}
	sort.Strings(inlined)
	sort.Strings(assumed)
	var samples []map[string]interface{}
	step := len(groups)/6 + 1
	for i := 0; i < len(groups); i += step {
		g := groups[i]
		samples = append(samples, map[string]interface{}{"obligation": g.Name, "clause": g.Clause, "result": g.Status, "backend": g.Backend, "seconds": round3(g.Seconds), "paths": len(g.Instances), "at": g.Pos})
	}
	var known []string
	for _, g := range groups {
		if g.Known != nil && g.Status != "proved" {
			known = append(known, g.Name)
		}
	}
	ev := Evidence{PropertyID: prop, Tier: *tier, Seed: seed, Level: "proof", WallS: round3(wall), Violations: violations,
		Coverage: map[string]interface{}{
			"obligations": nObl, "discharged": nDis, "known_findings": nKnown, "known_finding_obligations": known,
			"checker_cmd":              "bin/govc check " + prop + " --tier " + *tier,
			"trusted_base":             trustedBase(assumed),
			"functions_under_contract": fnames, "by_backend": byBackend, "solver_s": round3(solverS), "max_query_s": round3(maxQ),
			"covers_sat": covers, "inlined": inlined, "out_of_subset": oos, "assumed_contracts": assumed, "bounded": []string{},
			"samples": samples, "path_instances": len(all),
			"integers": "bit-vectors of the Go width (int/uint = 64 bit); no integer is treated as mathematical",
		},
		Assumptions: propAssumptions(prop, assumed),
	}
	if !*noEvidence {
		os.MkdirAll(filepath.Join(verifDir, "evidence"), 0o755)
		data, _ := json.MarshalIndent(ev, "", " ")
		os.WriteFile(filepath.Join(verifDir, "evidence", prop+".json"), data, 0o644)
	}
	if os.Getenv("GOVC_SLOW") != "" {
		type sl struct {
			n string
			s float64
		}
		var sls []sl
		for _, g := range groups {
			for _, o := range g.Instances {
				sls = append(sls, sl{g.Name, o.Seconds})
			}
		}
		sort.Slice(sls, func(i, j int) bool { return sls[i].s > sls[j].s })
		for i := 0; i < len(sls) && i < 12; i++ {
			fmt.Printf("SLOW %.2fs %s\n", sls[i].s, sls[i].n)
		}
	}
	fmt.Printf("%s: %d obligations, %d discharged, %d known findings, %d violations, %d functions, %.1fs\n", prop, nObl, nDis, nKnown, violations, len(results), wall)
	if *verbose {
		for _, g := range groups {
			fmt.Printf("  %-9s %-12s %s   [%s]\n", g.Status, g.Backend, g.Name, g.Clause)
		}
	}
	if violations > 0 {
		return 1
	}
	return 0
}

func round3(f float64) float64 { return float64(int(f*1000+0.5)) / 1000 }

func trustedBase(assumed []string) []string {
	tb := []string{"golang.org/x/tools/go/ssa v0.29.0 (source -> SSA)", "govc symbolic executor and contract evaluator (/verif/govc)", "z3 5.1.0, cvc5 1.0.3, z3 4.8.12"}
	for _, a := range assumed {
		tb = append(tb, "assumed contract: "+a)
	}
	return tb
}

func propAssumptions(prop string, assumed []string) []string {
	a := []string{
		"physical bounds: slice lengths/capacities <= 2^40, every size()/sum() spec term <= 2^50",
		"distinct pointer/slice parameters of a verified function do not alias each other",
		"append is modelled as producing a new backing array with the same contents (aliasing through spare capacity is not modelled)",
		"allocation never fails",
	}
	for _, x := range assumed {
		a = append(a, "assumed contract of external: "+x)
	}
	if extra, ok := propExtraAssumptions[prop]; ok {
		a = append(a, extra...)
	}
	return a
}

var propExtraAssumptions = map[string][]string{}

// propHooks: additional, property-specific obligations (whole-program scans, lemmas).
var propHooks = map[string]func(L *Loaded) []*Oblig{}

// ---------- violation reporting ----------

func reportViolation(L *Loaded, prop string, g *OblGroup, repo string) string {
	dir := filepath.Join(verifDir, "replays", prop)
	os.MkdirAll(dir, 0o755)
	file := filepath.Join(dir, fileSafe(g.Name)+".json")
	rep := map[string]interface{}{"property": prop, "obligation": g.Name, "class": g.Class, "clause": g.Clause, "at": g.Pos, "status": g.Status}
	noInput := true
	var failing *Oblig
	for _, o := range g.Instances {
		if o.Status == "refuted" {
			failing = o
			break
		}
	}
	if failing == nil {
		for _, o := range g.Instances {
			if o.Status != "proved" {
				failing = o
				break
			}
		}
	}
	if failing != nil {
		rep["solver"] = map[string]interface{}{"backend": failing.Backend, "result": failing.Status, "seconds": failing.Seconds, "output": trunc(failing.Output, 4000)}
		if failing.Status == "refuted" && !failing.Cover {
			rp := buildReplay(L, failing, repo)
			if rp != nil {
				rep["model"] = rp.Model
				rep["go_test"] = rp.GoTest
				rep["run"] = rp.Run
				rep["replay_pkg_dir"] = rp.PkgDir
				if rp.Reproduced {
					noInput = false
				}
			}
		}
	}
	rep["no_failing_input_found"] = noInput
	data, _ := json.MarshalIndent(rep, "", " ")
	os.WriteFile(file, data, 0o644)
	line := fmt.Sprintf("VIOLATION property=%s replay=%s", prop, file)
	if noInput {
		line += " obligation=" + g.Name + " no-failing-input-found"
	} else {
		line = fmt.Sprintf("VIOLATION property=%s replay=%s obligation=%s reproduced-on-real-code", prop, file, g.Name)
		// the line must end as specified only in the no-input case; keep replay= as second token
	}
	return line
}

func trunc(s string, n int) string {
	if len(s) > n {
		return s[:n] + "…"
	}
	return s
}

func fileSafe(s string) string {
	var sb strings.Builder
	for _, r := range s {
		switch {
		case r >= 'a' && r <= 'z', r >= 'A' && r <= 'Z', r >= '0' && r <= '9', r == '.', r == '-', r == '_':
			sb.WriteRune(r)
		default:
			sb.WriteByte('_')
		}
	}
	out := sb.String()
	if len(out) > 180 {
		out = out[:180]
	}
	return out
}

// ---------- debug commands ----------

func cmdVerify(args []string) int {
	fs := flag.NewFlagSet("verify", flag.ExitOnError)
	repo := fs.String("repo", "/repo", "repository directory")
	showAll := fs.Bool("a", false, "show proved obligations too")
	dump := fs.Bool("smt", false, "dump SMT of failing obligations")
	if len(args) < 1 {
		return 2
	}
	re := regexp.MustCompile(args[0])
	fs.Parse(args[1:])
	L := load(*repo)
	for _, e := range L.Contracts.Errors {
		fmt.Println("CONTRACT ERROR:", e)
	}
	rc := 0
	var fns []*ssa.Function
	for fn := range L.AllFuncs {
		if L.isRepoFunc(fn) && re.MatchString(funcKey(fn)) {
			fns = append(fns, fn)
		}
	}
	sort.Slice(fns, func(i, j int) bool { return funcKey(fns[i]) < funcKey(fns[j]) })
	for _, fn := range fns {
		fc := L.Contracts.lookup(fn)
		r := verifyFunc(L, fn, fc)
		solveAll(r.Obligs, 10, "first")
		groups := groupObligs(r.Obligs)
		np := 0
		for _, g := range groups {
			if g.Status == "proved" {
				np++
			}
		}
		hasC := "no contract"
		if fc != nil {
			hasC = "contract " + fc.Line
		}
		fmt.Printf("== %s (%s): %d/%d obligations proved, %d paths, %d returns\n", r.Key, hasC, np, len(groups), r.Paths, r.Returns)
		for _, e := range r.Errs {
			fmt.Println("   NOT VERIFIED:", e)
			rc = 1
		}
		if len(r.Inlined) > 0 {
			fmt.Println("   inlined:", strings.Join(r.Inlined, ", "))
		}
		for _, g := range groups {
			if g.Status != "proved" || *showAll {
				fmt.Printf("   %-9s %-10s %s  [%s] %s\n", g.Status, g.Backend, strings.TrimPrefix(g.Name, r.Key+"/"), g.Clause, g.Pos)
				if g.Status != "proved" {
					rc = 1
					for _, o := range g.Instances {
						if o.Status != "proved" {
							if *dump {
								fmt.Println(Script(o.Hyps, o.Goal, nil))
							}
							if o.Status == "refuted" && !o.Cover {
								m := modelFor(o)
								fmt.Println("      model:", m)
							}
							break
						}
					}
				}
			}
		}
	}
	return rc
}

func cmdList(args []string) int {
	L := load("/repo")
	for _, e := range L.Contracts.Errors {
		fmt.Println("CONTRACT ERROR:", e)
	}
	for _, fc := range L.Contracts.Order {
		fmt.Printf("%-70s %v %s\n", funcKey(fc.Fn), fc.Props, fc.Line)
	}
	return 0
}

// cmdExt lists external (non-repo) functions called from repo functions, with call counts.
func cmdExt(args []string) int {
	L := load("/repo")
	cnt := map[string]int{}
	for fn := range L.AllFuncs {
		if !L.isRepoFunc(fn) {
			continue
		}
		for _, b := range fn.Blocks {
			for _, in := range b.Instrs {
				if c, ok := in.(ssa.CallInstruction); ok {
					if callee := c.Common().StaticCallee(); callee != nil && !L.isRepoFunc(callee) {
						tag := ""
						if _, ok := extModels[callee.String()]; ok {
							tag = " [model]"
						} else if inlineExternal(callee) {
							tag = " [inline]"
						}
						cnt[callee.String()+tag]++
					}
				}
			}
		}
	}
	var ks []string
	for k := range cnt {
		ks = append(ks, k)
	}
	sort.Strings(ks)
	for _, k := range ks {
		fmt.Printf("%4d %s\n", cnt[k], k)
	}
	return 0
}

// cmdImpls lists the synthesised/explicit contracts of interface implementers and whether size/wf specs exist.
func cmdImpls(args []string) int {
	L := load("/repo")
	seen := map[string]bool{}
	for _, fc := range L.Contracts.Order {
		if len(fc.Inherited) == 0 {
			continue
		}
		recv := fc.Fn.Params[0].Type()
		k := typeStr(recv)
		if seen[k] {
			continue
		}
		seen[k] = true
		has := func(name string) string {
			for _, sf := range L.Contracts.Specs[name] {
				if types.Identical(sf.PTypes[0], recv) {
					return name
				}
			}
			return "-"
		}
		pos := L.Fset.Position(fc.Fn.Pos())
		fmt.Printf("%-45s %-5s %-3s %s:%d\n", k, has("size"), has("wf"), shortFile(pos.Filename), pos.Line)
	}
	return 0
}
