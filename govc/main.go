package main

import (
	"encoding/json"
	"flag"
	"fmt"
	"go/types"
	"os"
	"os/exec"
	"path/filepath"
	"regexp"
	"runtime"
	"sort"
	"strconv"
	"strings"
	"sync"
	"time"

	"golang.org/x/tools/go/ssa"
)

var verifDir = "/verif"

// knownFalsePost: obligation names "<function>/post:<label>" listed as findings in known_findings.txt.
var knownFalsePost = map[string]bool{}

func main() {
	if len(os.Args) < 2 {
		fmt.Fprintln(os.Stderr, "usage: govc check <Cxx> [--tier quick|thorough] [--repo dir] | verify <regex> | list | ext | replay <file>")
		os.Exit(2)
	}
	defer cleanupScratch()
	if d := os.Getenv("GOVC_VERIF_DIR"); d != "" {
		verifDir = d
	}
	// a postcondition recorded as a known finding is known NOT to hold: it is never assumed at a call site
	for _, f := range loadFindings() {
		if f.Kind == "finding" && strings.Contains(f.Obligation, "/post:") {
			knownFalsePost[f.Obligation] = true
		}
	}
	switch os.Args[1] {
	case "check":
		exit(cmdCheck(os.Args[2:]))
	case "verify":
		exit(cmdVerify(os.Args[2:]))
	case "list":
		exit(cmdList(os.Args[2:]))
	case "ext":
		exit(cmdExt(os.Args[2:]))
	case "impls":
		exit(cmdImpls(os.Args[2:]))
	case "genrt":
		exit(cmdGenRT(os.Args[2:]))
	case "replay":
		exit(cmdReplay(os.Args[2:]))
	case "selftest":
		exit(cmdSelftest(os.Args[2:]))
	}
	fmt.Fprintln(os.Stderr, "unknown command", os.Args[1])
	os.Exit(2)
}

func exit(rc int) {
	cleanupScratch()
	os.Exit(rc)
}

func load(repo string) *Loaded {
	L, err := loadRepo(repo)
	if err != nil {
		fmt.Fprintln(os.Stderr, "load failed:", err)
		cleanupScratch()
		os.Exit(3)
	}
	L.Contracts = loadContracts(L)
	return L
}

// ---------- solving ----------

func solveAll(obs []*Oblig, timeoutS int, mode string) {
	var wg sync.WaitGroup
	par := runtime.NumCPU()
	if k, _ := strconv.Atoi(os.Getenv("GOVC_SHARDS")); k > 1 {
		par = par / k
		if par < 2 {
			par = 2
		}
	}
	sem := make(chan struct{}, par)
	// scripts are built sequentially (term tables are not thread-safe for construction, reading is)
	for _, o := range obs {
		if o.Status != "" {
			continue // decided by a scan
		}
		if o.Cover {
			if len(o.Hyps) == 0 {
				o.Status, o.Backend = "proved", "simplifier"
				continue
			}
		} else {
			if o.Goal.IsTrue() {
				o.Status, o.Backend = "proved", "simplifier"
				continue
			}
			inPC := false
			for _, h := range o.Hyps {
				if h == o.Goal {
					inPC = true
				}
				if h.IsFalse() {
					inPC = true
				}
			}
			if inPC {
				o.Status, o.Backend = "proved", "simplifier"
				continue
			}
		}
		if !o.Cover {
			// equality propagation: hypotheses of the form t == const are substituted into the goal
			if g2 := propagateEqs(o.Hyps, o.Goal); g2 != o.Goal {
				if g2.IsTrue() {
					o.Status, o.Backend = "proved", "simplifier"
					continue
				}
			}
		}
		var script string
		if o.Cover {
			script = Script(o.Hyps, nil, nil)
		} else {
			script = Script(o.Hyps, o.Goal, nil)
		}
		if len(script) > 4<<20 {
			o.Status, o.Output = "undecided", "script too large"
			continue
		}
		wg.Add(1)
		go func(o *Oblig, script string) {
			defer wg.Done()
			sem <- struct{}{}
			defer func() { <-sem }()
			r := Solve(script, timeoutS, 0, mode)
			o.Backend, o.Seconds, o.Output = r.Backend, r.Seconds, r.Output
			want := "unsat"
			if o.Cover {
				want = "sat"
			}
			switch {
			case r.Status == want:
				o.Status = "proved"
			case r.Status == "sat" || r.Status == "unsat":
				o.Status = "refuted"
			default:
				o.Status = "undecided"
				if len(o.Output) > 2000 {
					o.Output = o.Output[:2000]
				}
			}
		}(o, script)
	}
	wg.Wait()
	// robustness against machine load: obligations left undecided (time-out) are retried one at a time with a
	// long time limit before they are reported
	for _, o := range obs {
		if o.Status != "undecided" || o.Output == "script too large" {
			continue
		}
		var script string
		if o.Cover {
			script = Script(o.Hyps, nil, nil)
		} else {
			script = Script(o.Hyps, o.Goal, nil)
		}
		r := Solve(script, 90, 0, "first")
		want := "unsat"
		if o.Cover {
			want = "sat"
		}
		o.Backend, o.Seconds, o.Output = r.Backend+"(retry)", o.Seconds+r.Seconds, r.Output
		switch {
		case r.Status == want:
			o.Status = "proved"
		case r.Status == "sat" || r.Status == "unsat":
			o.Status = "refuted"
		}
	}
}

// propagateEqs substitutes, in goal, every non-constant term t for which a hypothesis t == c (c constant)
// exists, rebuilding through the simplifying constructors.
func propagateEqs(hyps []*Term, goal *Term) *Term {
	sub := map[int]*Term{}
	for _, h := range hyps {
		if h.Op == "=" && len(h.Args) == 2 {
			a, b := h.Args[0], h.Args[1]
			if b.IsConst() && !a.IsConst() && a.S.K != SArr {
				sub[a.id] = b
			} else if a.IsConst() && !b.IsConst() && b.S.K != SArr {
				sub[b.id] = a
			}
		}
	}
	if len(sub) == 0 {
		return goal
	}
	memo := map[int]*Term{}
	var walk func(t *Term) *Term
	walk = func(t *Term) *Term {
		if r, ok := sub[t.id]; ok {
			return r
		}
		if r, ok := memo[t.id]; ok {
			return r
		}
		r := t
		if len(t.Args) > 0 {
			args := make([]*Term, len(t.Args))
			changed := false
			for i, a := range t.Args {
				args[i] = walk(a)
				if args[i] != a {
					changed = true
				}
			}
			if changed {
				switch t.Op {
				case "app":
					r = App(t.Name, t.S, args...)
				case "select":
					r = Select(args[0], args[1])
				default:
					r = rebuild(t, args)
				}
			}
		}
		memo[t.id] = r
		return r
	}
	return walk(goal)
}

// ---------- grouping ----------

type OblGroup struct {
	Name      string
	Class     string
	Func      string
	Clause    string
	Pos       string
	Instances []*Oblig
	Status    string // proved / refuted / undecided
	Backend   string
	Seconds   float64
	Known     *Finding
}

func groupObligs(obs []*Oblig) []*OblGroup {
	m := map[string]*OblGroup{}
	var order []*OblGroup
	for _, o := range obs {
		g := m[o.Name]
		if g == nil {
			g = &OblGroup{Name: o.Name, Class: o.Class, Func: o.Func, Clause: o.Clause, Pos: o.Pos}
			m[o.Name] = g
			order = append(order, g)
		}
		g.Instances = append(g.Instances, o)
	}
	for _, g := range order {
		g.Status = "proved"
		bes := map[string]bool{}
		for _, o := range g.Instances {
			g.Seconds += o.Seconds
			bes[o.Backend] = true
			if o.Status == "refuted" {
				g.Status = "refuted"
			} else if o.Status != "proved" && g.Status != "refuted" {
				g.Status = "undecided"
			}
		}
		var bl []string
		for b := range bes {
			if b != "" {
				bl = append(bl, b)
			}
		}
		sort.Strings(bl)
		g.Backend = strings.Join(bl, ",")
	}
	return order
}

// ---------- known findings ----------

type Finding struct {
	Kind       string // finding | fixed
	Property   string
	Obligation string
	Note       string
	used       bool
}

func loadFindings() []*Finding {
	data, err := os.ReadFile(filepath.Join(verifDir, "known_findings.txt"))
	if err != nil {
		return nil
	}
	var out []*Finding
	re := regexp.MustCompile(`^(finding|fixed):\s+property=(C\d+)\s+(?:commit=\S+\s+)?obligation=(\S+)\s*(.*)$`)
	for _, ln := range strings.Split(string(data), "\n") {
		ln = strings.TrimSpace(ln)
		if m := re.FindStringSubmatch(ln); m != nil {
			out = append(out, &Finding{Kind: m[1], Property: m[2], Obligation: m[3], Note: m[4]})
		}
	}
	return out
}

// ---------- property configuration ----------

// classes of obligations that decide each property (prefix match on class). Empty = all classes.
var propClasses = map[string][]string{}

func classAllowed(prop, class string) bool {
	cs := propClasses[prop]
	if len(cs) == 0 {
		return true
	}
	for _, c := range cs {
		if strings.HasPrefix(class, c) {
			return true
		}
	}
	return false
}

func hasProp(ps []string, p string) bool {
	for _, x := range ps {
		if x == p {
			return true
		}
	}
	return false
}

// ---------- check ----------

type Evidence struct {
	PropertyID  string                 `json:"property_id"`
	Tier        string                 `json:"tier"`
	Seed        int                    `json:"seed"`
	Level       string                 `json:"level"`
	Coverage    map[string]interface{} `json:"coverage"`
	Assumptions []string               `json:"assumptions"`
	WallS       float64                `json:"wall_s"`
	Violations  int                    `json:"violations"`
}

// Partial is what one shard of a check reports to the coordinating process.
type Partial struct {
	Lines        []string                 `json:"lines"`
	Stdout       []string                 `json:"stdout"`
	NObl         int                      `json:"nobl"`
	NDis         int                      `json:"ndis"`
	NKnown       int                      `json:"nknown"`
	Violations   int                      `json:"violations"`
	ByBackend    map[string]int           `json:"by_backend"`
	SolverS      float64                  `json:"solver_s"`
	MaxQ         float64                  `json:"max_q"`
	Covers       int                      `json:"covers"`
	Funcs        []string                 `json:"funcs"`
	Inlined      []string                 `json:"inlined"`
	Assumed      []string                 `json:"assumed"`
	OOS          []string                 `json:"oos"`
	Samples      []map[string]interface{} `json:"samples"`
	Known        []string                 `json:"known"`
	Instances    int                      `json:"instances"`
	Slow         []string                 `json:"slow"`
	HasDecl      bool                     `json:"has_decl"`
	Min          int                      `json:"min"`
	HasHook      bool                     `json:"has_hook"`
	ContractErrs int                      `json:"contract_errs"`
	Bounded      []string                 `json:"bounded"`
}

// runShard verifies the functions of one shard (index i of n, by position in the contract order) and classifies
// the results; shard 0 also runs the property's whole-program hook and reports contract errors.
func runShard(prop, repo, tier string, si, sn int) *Partial {
	L := load(repo)
	db := L.Contracts
	var results []*FuncResult
	var all []*Oblig
	var bounded []string
	idx := 0
	if tier == "thorough" {
		coverCalls = true
	}
	for _, fc := range db.Order {
		if !hasProp(fc.Props, prop) || fc.Trusted || (fc.ThoroughOnly && tier != "thorough") {
			continue
		}
		mine := idx%sn == si
		idx++
		if !mine {
			continue
		}
		t0 := time.Now()
		r := verifyFunc(L, fc.Fn, fc)
		r.ExecSecs = time.Since(t0).Seconds()
		results = append(results, r)
		if fc.Bounded != "" {
			bounded = append(bounded, funcKey(fc.Fn)+": "+fc.Bounded)
		}
		for _, o := range r.Obligs {
			if o.Props != nil && !hasProp(o.Props, prop) {
				continue
			}
			if o.Class != "cover" && o.Class != "covercall" && !classAllowed(prop, o.Class) {
				continue
			}
			all = append(all, o)
		}
	}
	P := &Partial{ByBackend: map[string]int{}, Bounded: bounded}
	if hook, ok := propHooks[prop]; ok {
		P.HasHook = true
		if si == 0 {
			all = append(all, hook(L)...)
		}
	}
	timeout := 10
	mode := "first"
	if tier == "thorough" {
		timeout = 120
		mode = "agree"
	}
	solveAll(all, timeout, mode)
	groups := groupObligs(all)
	findings := loadFindings()
	fmap := map[string]*Finding{}
	for _, f := range findings {
		if f.Kind == "finding" && f.Property == prop {
			fmap[f.Obligation] = f
		}
	}
	type synthetic struct{ name, detail string }
	var synth []synthetic
	if si == 0 {
		for _, e := range db.Errors {
			synth = append(synth, synthetic{"contracts/" + sanitize(e), e})
		}
		P.ContractErrs = len(db.Errors)
	}
	for _, r := range results {
		for _, e := range r.Errs {
			synth = append(synth, synthetic{r.Key + "/engine/not-verified", e})
		}
	}
	type sl struct {
		n string
		s float64
	}
	var sls []sl
	for _, g := range groups {
		for _, o := range g.Instances {
			P.SolverS += o.Seconds
			if o.Seconds > P.MaxQ {
				P.MaxQ = o.Seconds
			}
			sls = append(sls, sl{g.Name, o.Seconds})
		}
		if g.Class == "covercall" {
			// one satisfiable path behind the call site is enough
			for _, o := range g.Instances {
				if o.Status == "proved" {
					g.Status, g.Backend = "proved", o.Backend
				}
			}
		}
		if g.Class == "cover" || g.Class == "covercall" {
			if g.Status == "proved" {
				P.Covers++
			} else {
				P.Stdout = append(P.Stdout, fmt.Sprintf("VACUOUS: %s (%s): preconditions (or, for covercall, the state behind the call on every path) unsatisfiable or undecided", g.Name, g.Status))
				P.Violations++
				P.Lines = append(P.Lines, reportViolation(L, prop, g, repo))
			}
			continue
		}
		if f, ok := fmap[g.Name]; ok {
			g.Known = f
			if g.Status == "proved" {
				P.Stdout = append(P.Stdout, fmt.Sprintf("NOTE: known finding no longer reproduces: property=%s %s", prop, g.Name))
				P.NObl++
				P.NDis++
				P.ByBackend[g.Backend]++
			} else {
				P.NKnown++
				P.Known = append(P.Known, g.Name)
				P.Stdout = append(P.Stdout, fmt.Sprintf("KNOWN-FINDING: property=%s %s %s", prop, g.Name, f.Note))
			}
			continue
		}
		P.NObl++
		if g.Status == "proved" {
			P.NDis++
			P.ByBackend[g.Backend]++
			continue
		}
		P.Violations++
		P.Lines = append(P.Lines, reportViolation(L, prop, g, repo))
	}
	for _, sy := range synth {
		P.NObl++
		P.Violations++
		g := &OblGroup{Name: sy.name, Class: "engine", Status: "undecided", Clause: sy.detail}
		P.Lines = append(P.Lines, reportViolation(L, prop, g, repo))
	}
	sort.Slice(sls, func(i, j int) bool { return sls[i].s > sls[j].s })
	for i := 0; i < len(sls) && i < 8; i++ {
		P.Slow = append(P.Slow, fmt.Sprintf("%.2fs %s", sls[i].s, sls[i].n))
	}
	inl := map[string]bool{}
	asm := map[string]bool{}
	for _, r := range results {
		if r.ExecSecs > 3 {
			P.Slow = append(P.Slow, fmt.Sprintf("%.2fs exec %s", r.ExecSecs, r.Key))
		}
		P.Funcs = append(P.Funcs, r.Key)
		for _, x := range r.Inlined {
			inl[x] = true
		}
		for _, x := range r.Assumed {
			asm[x] = true
		}
		for _, e := range r.Errs {
			P.OOS = append(P.OOS, r.Key+": "+e)
		}
	}
	for k := range inl {
		P.Inlined = append(P.Inlined, k)
	}
	for k := range asm {
		P.Assumed = append(P.Assumed, k)
	}
	step := len(groups)/3 + 1
	for i := 0; i < len(groups); i += step {
		g := groups[i]
		P.Samples = append(P.Samples, map[string]interface{}{"obligation": g.Name, "clause": trunc(g.Clause, 300), "result": g.Status, "backend": g.Backend, "seconds": round3(g.Seconds), "paths": len(g.Instances), "at": g.Pos})
	}
	P.Instances = len(all)
	if pd := db.Props[prop]; pd != nil {
		P.HasDecl = true
		P.Min = pd.Min
	}
	return P
}

func cmdCheck(args []string) int {
	fs := flag.NewFlagSet("check", flag.ExitOnError)
	tier := fs.String("tier", "quick", "quick|thorough")
	repo := fs.String("repo", "/repo", "repository directory")
	noEvidence := fs.Bool("no-evidence", false, "do not write the evidence file (selftest)")
	shard := fs.String("shard", "", "internal: i/n")
	shardOut := fs.String("shard-out", "", "internal: file for the shard's result")
	nshards := fs.Int("shards", 0, "number of worker processes (default: by number of functions)")
	if len(args) < 1 {
		fmt.Fprintln(os.Stderr, "check <Cxx>")
		return 2
	}
	prop := args[0]
	fs.Parse(args[1:])
	if t := os.Getenv("VERIF_TIER"); t == "quick" || t == "thorough" {
		*tier = t
	}
	seed, _ := strconv.Atoi(os.Getenv("VERIF_SEED"))
	start := time.Now()
	if *shard != "" {
		var si, sn int
		fmt.Sscanf(*shard, "%d/%d", &si, &sn)
		P := runShard(prop, *repo, *tier, si, sn)
		data, _ := json.Marshal(P)
		os.WriteFile(*shardOut, data, 0o644)
		return 0
	}
	// decide the number of shards from the number of functions under contract for this property
	n := *nshards
	if n <= 0 {
		L := load(*repo)
		cnt := 0
		for _, fc := range L.Contracts.Order {
			if hasProp(fc.Props, prop) && !fc.Trusted && !(fc.ThoroughOnly && *tier != "thorough") {
				cnt++
			}
		}
		n = cnt / 25
		if n < 1 {
			n = 1
		}
		if n > 8 {
			n = 8
		}
	}
	var parts []*Partial
	if n == 1 {
		parts = append(parts, runShard(prop, *repo, *tier, 0, 1))
	} else {
		self, _ := os.Executable()
		dir := scratch()
		var wg sync.WaitGroup
		res := make([]*Partial, n)
		errs := make([]string, n)
		for i := 0; i < n; i++ {
			wg.Add(1)
			go func(i int) {
				defer wg.Done()
				out := filepath.Join(dir, fmt.Sprintf("shard%d.json", i))
				cmd := exec.Command(self, "check", prop, "--tier", *tier, "--repo", *repo, "--shard", fmt.Sprintf("%d/%d", i, n), "--shard-out", out)
				cmd.Env = append(os.Environ(), fmt.Sprintf("GOVC_SHARDS=%d", n))
				o, err := cmd.CombinedOutput()
				data, rerr := os.ReadFile(out)
				if err != nil || rerr != nil {
					errs[i] = fmt.Sprintf("shard %d failed: %v %v %s", i, err, rerr, trunc(string(o), 1500))
					return
				}
				var P Partial
				if json.Unmarshal(data, &P) != nil {
					errs[i] = fmt.Sprintf("shard %d: bad result", i)
					return
				}
				res[i] = &P
			}(i)
		}
		wg.Wait()
		for i := 0; i < n; i++ {
			if res[i] == nil {
				fmt.Println("ENGINE ERROR:", errs[i])
				g := &OblGroup{Name: fmt.Sprintf("engine/shard%d", i), Class: "engine", Status: "undecided", Clause: errs[i]}
				fmt.Println(reportViolation(nil, prop, g, *repo))
				return 1
			}
			parts = append(parts, res[i])
		}
	}
	// aggregate
	A := &Partial{ByBackend: map[string]int{}}
	for _, P := range parts {
		A.Lines = append(A.Lines, P.Lines...)
		A.Stdout = append(A.Stdout, P.Stdout...)
		A.NObl += P.NObl
		A.NDis += P.NDis
		A.NKnown += P.NKnown
		A.Violations += P.Violations
		for k, v := range P.ByBackend {
			A.ByBackend[k] += v
		}
		A.SolverS += P.SolverS
		if P.MaxQ > A.MaxQ {
			A.MaxQ = P.MaxQ
		}
		A.Covers += P.Covers
		A.Funcs = append(A.Funcs, P.Funcs...)
		A.Inlined = append(A.Inlined, P.Inlined...)
		A.Assumed = append(A.Assumed, P.Assumed...)
		A.OOS = append(A.OOS, P.OOS...)
		A.Samples = append(A.Samples, P.Samples...)
		A.Known = append(A.Known, P.Known...)
		A.Instances += P.Instances
		A.Slow = append(A.Slow, P.Slow...)
		A.Bounded = append(A.Bounded, P.Bounded...)
		A.HasDecl = A.HasDecl || P.HasDecl
		A.HasHook = A.HasHook || P.HasHook
		if P.Min > A.Min {
			A.Min = P.Min
		}
	}
	sort.Strings(A.Funcs)
	A.Inlined = uniqSorted(A.Inlined)
	A.Assumed = uniqSorted(A.Assumed)
	sort.Strings(A.Stdout)
	for _, l := range A.Stdout {
		fmt.Println(l)
	}
	violations := A.Violations
	lines := A.Lines
	if A.HasDecl && A.NObl+A.NKnown < A.Min {
		violations++
		g := &OblGroup{Name: "floor/" + prop, Class: "engine", Status: "undecided", Clause: fmt.Sprintf("only %d obligations generated, floor is %d (contracts missing or functions lost)", A.NObl+A.NKnown, A.Min)}
		lines = append(lines, reportViolation(nil, prop, g, *repo))
	} else if !A.HasDecl || len(A.Funcs) == 0 && !A.HasHook {
		violations++
		g := &OblGroup{Name: "floor/" + prop, Class: "engine", Status: "undecided", Clause: "no property declaration / no functions under contract for this property"}
		lines = append(lines, reportViolation(nil, prop, g, *repo))
	}
	sort.Strings(lines)
	for _, l := range lines {
		fmt.Println(l)
	}
	if os.Getenv("GOVC_SLOW") != "" {
		sort.Slice(A.Slow, func(i, j int) bool { return A.Slow[i] > A.Slow[j] })
		for i := 0; i < len(A.Slow) && i < 12; i++ {
			fmt.Println("SLOW", A.Slow[i])
		}
	}
	wall := time.Since(start).Seconds()
	if len(A.Samples) > 8 {
		A.Samples = A.Samples[:8]
	}
	ev := Evidence{PropertyID: prop, Tier: *tier, Seed: seed, Level: "proof", WallS: round3(wall), Violations: violations,
		Coverage: map[string]interface{}{
			"obligations": A.NObl, "discharged": A.NDis, "known_findings": A.NKnown, "known_finding_obligations": A.Known,
			"checker_cmd":              "bin/govc check " + prop + " --tier " + *tier,
			"trusted_base":             trustedBase(A.Assumed),
			"functions_under_contract": A.Funcs, "by_backend": A.ByBackend, "solver_s": round3(A.SolverS), "max_query_s": round3(A.MaxQ),
			"covers_sat": A.Covers, "inlined": A.Inlined, "out_of_subset": A.OOS, "assumed_contracts": A.Assumed, "bounded": boundedList(A.Bounded),
			"samples": A.Samples, "path_instances": A.Instances, "worker_processes": len(parts),
			"integers": "bit-vectors of the Go width (int/uint = 64 bit); no integer is treated as mathematical",
		},
		Assumptions: propAssumptions(prop, A.Assumed),
	}
	if !*noEvidence {
		os.MkdirAll(filepath.Join(verifDir, "evidence"), 0o755)
		data, _ := json.MarshalIndent(ev, "", " ")
		os.WriteFile(filepath.Join(verifDir, "evidence", prop+".json"), data, 0o644)
	}
	fmt.Printf("%s: %d obligations, %d discharged, %d known findings, %d violations, %d functions, %.1fs\n", prop, A.NObl, A.NDis, A.NKnown, violations, len(A.Funcs), wall)
	if violations > 0 {
		return 1
	}
	return 0
}

func uniqSorted(xs []string) []string {
	sort.Strings(xs)
	var out []string
	for i, x := range xs {
		if i == 0 || x != xs[i-1] {
			out = append(out, x)
		}
	}
	return out
}

func round3(f float64) float64 { return float64(int(f*1000+0.5)) / 1000 }

func trustedBase(assumed []string) []string {
	tb := []string{"golang.org/x/tools/go/ssa v0.29.0 (source -> SSA)", "govc symbolic executor and contract evaluator (/verif/govc)", "z3 5.1.0, cvc5 1.0.3, z3 4.8.12"}
	for _, a := range assumed {
		tb = append(tb, "assumed contract: "+a)
	}
	return tb
}

func propAssumptions(prop string, assumed []string) []string {
	a := []string{
		"physical bounds: slice lengths/capacities <= 2^40, every size()/sum() spec term <= 2^50; sum(xs, .) is monotone in its index (element sizes are non-negative), used by the elemsat element-placement clauses",
		"distinct pointer/slice parameters of a verified function do not alias each other",
		"append is modelled as producing a new backing array with the same contents (aliasing through spare capacity is not modelled)",
		"allocation never fails",
		"trusted simplifier: terms are normalised at construction (constant folding, linear normal form of sums) and byte-memory reads are resolved with unsigned interval reasoning and linear equalities taken from the path condition (govc/term.go, govc/bounds.go); not re-checked by the solvers",
	}
	for _, x := range assumed {
		a = append(a, "assumed contract of external: "+x)
	}
	if extra, ok := propExtraAssumptions[prop]; ok {
		a = append(a, extra...)
	}
	return a
}

var propExtraAssumptions = map[string][]string{}

// propHooks: additional, property-specific obligations (whole-program scans, lemmas).
var propHooks = map[string]func(L *Loaded) []*Oblig{}

// ---------- violation reporting ----------

func reportViolation(L *Loaded, prop string, g *OblGroup, repo string) string {
	dir := filepath.Join(verifDir, "replays", prop)
	os.MkdirAll(dir, 0o755)
	file := filepath.Join(dir, fileSafe(g.Name)+".json")
	rep := map[string]interface{}{"property": prop, "obligation": g.Name, "class": g.Class, "clause": g.Clause, "at": g.Pos, "status": g.Status}
	noInput := true
	var failing *Oblig
	for _, o := range g.Instances {
		if o.Status == "refuted" {
			failing = o
			break
		}
	}
	if failing == nil {
		for _, o := range g.Instances {
			if o.Status != "proved" {
				failing = o
				break
			}
		}
	}
	if failing != nil {
		rep["solver"] = map[string]interface{}{"backend": failing.Backend, "result": failing.Status, "seconds": failing.Seconds, "output": trunc(failing.Output, 4000)}
		if failing.Status == "refuted" && !failing.Cover {
			rp := buildReplay(L, failing, repo)
			if rp != nil {
				rep["model"] = rp.Model
				rep["go_test"] = rp.GoTest
				rep["run"] = rp.Run
				rep["replay_pkg_dir"] = rp.PkgDir
				if rp.Reproduced {
					noInput = false
				}
			}
		}
	}
	rep["no_failing_input_found"] = noInput
	data, _ := json.MarshalIndent(rep, "", " ")
	os.WriteFile(file, data, 0o644)
	line := fmt.Sprintf("VIOLATION property=%s replay=%s", prop, file)
	if noInput {
		line += " obligation=" + g.Name + " no-failing-input-found"
	} else {
		line = fmt.Sprintf("VIOLATION property=%s replay=%s obligation=%s reproduced-on-real-code", prop, file, g.Name)
		// the line must end as specified only in the no-input case; keep replay= as second token
	}
	return line
}

func trunc(s string, n int) string {
	if len(s) > n {
		return s[:n] + "…"
	}
	return s
}

func fileSafe(s string) string {
	var sb strings.Builder
	for _, r := range s {
		switch {
		case r >= 'a' && r <= 'z', r >= 'A' && r <= 'Z', r >= '0' && r <= '9', r == '.', r == '-', r == '_':
			sb.WriteRune(r)
		default:
			sb.WriteByte('_')
		}
	}
	out := sb.String()
	if len(out) > 180 {
		out = out[:180]
	}
	return out
}

// ---------- debug commands ----------

func cmdVerify(args []string) int {
	fs := flag.NewFlagSet("verify", flag.ExitOnError)
	repo := fs.String("repo", "/repo", "repository directory")
	showAll := fs.Bool("a", false, "show proved obligations too")
	dump := fs.Bool("smt", false, "dump SMT of failing obligations")
	slowDir := fs.String("slowdir", "", "write the SMT scripts of obligations slower than 3 s to this directory")
	if len(args) < 1 {
		return 2
	}
	re := regexp.MustCompile(args[0])
	fs.Parse(args[1:])
	L := load(*repo)
	for _, e := range L.Contracts.Errors {
		fmt.Println("CONTRACT ERROR:", e)
	}
	rc := 0
	var fns []*ssa.Function
	for fn := range L.AllFuncs {
		if L.isRepoFunc(fn) && re.MatchString(funcKey(fn)) {
			fns = append(fns, fn)
		}
	}
	sort.Slice(fns, func(i, j int) bool { return funcKey(fns[i]) < funcKey(fns[j]) })
	for _, fn := range fns {
		fc := L.Contracts.lookup(fn)
		t0 := time.Now()
		r := verifyFunc(L, fn, fc)
		t1 := time.Now()
		solveAll(r.Obligs, 10, "first")
		fmt.Printf("   [exec %.1fs, solve %.1fs, %d raw obligations]\n", t1.Sub(t0).Seconds(), time.Since(t1).Seconds(), len(r.Obligs))
		groups := groupObligs(r.Obligs)
		np := 0
		for _, g := range groups {
			if g.Status == "proved" {
				np++
			}
		}
		hasC := "no contract"
		if fc != nil {
			hasC = "contract " + fc.Line
		}
		fmt.Printf("== %s (%s): %d/%d obligations proved, %d paths, %d returns\n", r.Key, hasC, np, len(groups), r.Paths, r.Returns)
		for _, e := range r.Errs {
			fmt.Println("   NOT VERIFIED:", e)
			rc = 1
		}
		if len(r.Inlined) > 0 {
			fmt.Println("   inlined:", strings.Join(r.Inlined, ", "))
		}
		for _, g := range groups {
			if *slowDir != "" {
				for i, o := range g.Instances {
					if o.Seconds > 3 || os.Getenv("GOVC_DUMP_ALL") != "" {
						os.MkdirAll(*slowDir, 0o755)
						os.WriteFile(filepath.Join(*slowDir, fmt.Sprintf("%s_%d.smt2", strings.ReplaceAll(strings.TrimPrefix(g.Name, r.Key+"/"), "/", "_"), i)), []byte(Script(o.Hyps, o.Goal, nil)), 0o644)
					}
				}
			}
			if g.Status == "proved" && g.Seconds > 3 {
				fmt.Printf("   slow %.1fs (%d instances) %s\n", g.Seconds, len(g.Instances), strings.TrimPrefix(g.Name, r.Key+"/"))
			}
		}
		if coverCalls || coverBlocks {
			// a call site is covered when at least one path behind it is satisfiable
			live := map[string]bool{}
			for _, g := range groups {
				if g.Class != "covercall" {
					continue
				}
				anySat := false
				for _, o := range g.Instances {
					if o.Status == "proved" {
						anySat = true
					}
				}
				if anySat {
					g.Status = "proved"
					live[strings.TrimPrefix(g.Name, r.Key+"/")] = true
				} else if !strings.Contains(g.Name, "/coverblock:") {
					fmt.Printf("   DEAD-AFTER-CALL %s (%d paths)\n", strings.TrimPrefix(g.Name, r.Key+"/"), len(g.Instances))
				}
			}
			{
				for _, b := range fn.Blocks {
					if live[fmt.Sprintf("coverblock:%d", b.Index)] || len(fn.Blocks) == 0 {
						continue
					}
					desc := ""
					for _, in := range b.Instrs {
						if in.Pos().IsValid() {
							p := L.Fset.Position(in.Pos())
							desc = fmt.Sprintf("%s:%d %s", shortFile(p.Filename), p.Line, in.String())
							break
						}
					}
					if desc == "" && len(b.Instrs) > 0 {
						desc = b.Instrs[len(b.Instrs)-1].String()
					}
					fmt.Printf("   DEAD-BLOCK %d %s [%s]\n", b.Index, b.Comment, desc)
				}
			}
		}
		for _, g := range groups {
			if g.Class == "covercall" {
				continue
			}
			if g.Status != "proved" || *showAll {
				fmt.Printf("   %-9s %-10s %s  [%s] %s\n", g.Status, g.Backend, strings.TrimPrefix(g.Name, r.Key+"/"), g.Clause, g.Pos)
				if g.Status != "proved" {
					rc = 1
					for _, o := range g.Instances {
						if o.Status != "proved" {
							if *dump {
								fmt.Println(Script(o.Hyps, o.Goal, nil))
							}
							if o.Status == "refuted" && !o.Cover {
								m := modelFor(o)
								fmt.Println("      model:", m)
							}
							break
						}
					}
				}
			}
		}
	}
	return rc
}

func cmdList(args []string) int {
	L := load("/repo")
	for _, e := range L.Contracts.Errors {
		fmt.Println("CONTRACT ERROR:", e)
	}
	for _, fc := range L.Contracts.Order {
		fmt.Printf("%-70s %v %s\n", funcKey(fc.Fn), fc.Props, fc.Line)
	}
	return 0
}

// cmdExt lists external (non-repo) functions called from repo functions, with call counts.
func cmdExt(args []string) int {
	L := load("/repo")
	cnt := map[string]int{}
	for fn := range L.AllFuncs {
		if !L.isRepoFunc(fn) {
			continue
		}
		for _, b := range fn.Blocks {
			for _, in := range b.Instrs {
				if c, ok := in.(ssa.CallInstruction); ok {
					if callee := c.Common().StaticCallee(); callee != nil && !L.isRepoFunc(callee) {
						tag := ""
						if _, ok := extModels[callee.String()]; ok {
							tag = " [model]"
						} else if inlineExternal(callee) {
							tag = " [inline]"
						}
						cnt[callee.String()+tag]++
					}
				}
			}
		}
	}
	var ks []string
	for k := range cnt {
		ks = append(ks, k)
	}
	sort.Strings(ks)
	for _, k := range ks {
		fmt.Printf("%4d %s\n", cnt[k], k)
	}
	return 0
}

// cmdImpls lists the synthesised/explicit contracts of interface implementers and whether size/wf specs exist.
func cmdImpls(args []string) int {
	L := load("/repo")
	seen := map[string]bool{}
	for _, fc := range L.Contracts.Order {
		if len(fc.Inherited) == 0 {
			continue
		}
		recv := fc.Fn.Params[0].Type()
		k := typeStr(recv)
		if seen[k] {
			continue
		}
		seen[k] = true
		has := func(name string) string {
			for _, sf := range L.Contracts.Specs[name] {
				if types.Identical(sf.PTypes[0], recv) {
					return name
				}
			}
			return "-"
		}
		pos := L.Fset.Position(fc.Fn.Pos())
		fmt.Printf("%-45s %-5s %-3s %s:%d\n", k, has("size"), has("wf"), shortFile(pos.Filename), pos.Line)
	}
	return 0
}

func boundedList(b []string) []string {
	sort.Strings(b)
	if b == nil {
		return []string{}
	}
	return b
}
