package main

// Forward symbolic execution of go/ssa functions with path forking, loops cut by
// invariants, calls cut by contracts (or inlined when the callee has none).

import (
	"fmt"
	"go/ast"
	"go/constant"
	"go/token"
	"go/types"
	"sort"
	"strings"

	"golang.org/x/tools/go/ssa"
)

type Oblig struct {
	Name   string
	Class  string
	Func   string
	Clause string
	Props  []string // nil = all properties of the function
	Hyps   []*Term
	Goal   *Term
	Pos    string
	Cover  bool // satisfiable expected
	st     *State
	entry  *EntryInfo
	// results
	Status  string // proved, refuted, undecided, trivially-proved
	Backend string
	Seconds float64
	Output  string
	Model   map[string]uint64
}

type EntryInfo struct {
	Fn      *ssa.Function
	Params  []Value // materialised parameters (incl. receiver first)
	Heap    map[int]*Object
	FC      *FuncContract
	Globals map[*ssa.Global]int
}

type Frame struct {
	fn     *ssa.Function
	regs   map[ssa.Value]Value
	cuts   map[*ssa.BasicBlock]*cutInfo
	chain  string // naming prefix for inlined frames
	depth  int
	fc     *FuncContract // contract of this frame's function (loop contracts), may be nil
	bind   []Value       // closure bindings
	defers []deferred
	// for discovery: loop stack limits
	stop   map[*ssa.BasicBlock]bool
	visits map[*ssa.BasicBlock]int // unrolling: header visits on this path
	// names: current value (or address, for variables kept in memory) of source-level local variables,
	// maintained from go/ssa DebugRef instructions; lets contracts mention locals and named results
	names map[string]nameBinding
}

type nameBinding struct {
	v      Value
	t      types.Type
	isAddr bool
}

func (f *Frame) clone() *Frame {
	r := make(map[ssa.Value]Value, len(f.regs))
	for k, v := range f.regs {
		r[k] = v
	}
	c := make(map[*ssa.BasicBlock]*cutInfo, len(f.cuts))
	for k, v := range f.cuts {
		c[k] = v
	}
	n := *f
	n.regs = r
	n.cuts = c
	if f.visits != nil {
		n.visits = make(map[*ssa.BasicBlock]int, len(f.visits))
		for k, v := range f.visits {
			n.visits[k] = v
		}
	}
	if f.names != nil {
		nm := make(map[string]nameBinding, len(f.names))
		for k, v := range f.names {
			nm[k] = v
		}
		n.names = nm
	}
	return &n
}

type cutInfo struct {
	variant  *Term // value of the variant at the loop head (signed 64-bit), nil if none
	ordinal  int
	maxObjID int
}

type Outcome struct {
	st   *State
	rets []Value
}

type writeRec struct {
	obj  int
	path []PathEl
	typ  types.Type
}

type discovery struct {
	loop    *loopInfo
	fr      *Frame
	writes  map[string]writeRec
	maxObj  int
	phiIn   map[*ssa.Phi]bool // back-edge value derived from an Input object
	phiOld  map[*ssa.Phi]bool // back-edge value refers to a non-fresh object
	aborted string
}

type Exec struct {
	L         *Loaded
	top       *ssa.Function
	topFC     *FuncContract
	entry     *EntryInfo
	obligs    []*Oblig
	disc      []*discovery
	paths     int
	forks     int
	maxPaths  int
	maxInline int
	errs      []string // out-of-subset etc. (function not verified)
	inlined   map[string]bool
	assumed   map[string]bool // assumed (external/trusted) contracts used
	usedCtr   map[string]bool // callee contracts used
	renamed   map[string]bool // contract identifier -> renamed loop variable it was resolved to
	noSafety  bool            // do not emit implicit safety obligations (only for trusted replays)
	retHook   func(st *State, fr *Frame, rets []Value)
	inputObjs map[int]bool
	lenient   bool // unknown externals return unconstrained values (package init evaluation only)
	skipDefer bool // deferred recover-closures are skipped (see verifyFunc)
	// recover modelling: the function under verification defers a closure that calls recover().
	// Every potential panic then forks a path on which the deferred closures run with recover() != nil
	// and the function returns through its Recover block; no safety/pre obligations are emitted.
	recoverMode bool
	panicking   bool
	topFrame    *Frame
	panicOuts   []Outcome
	retFrames   map[*State]*Frame
}

type deferred struct {
	fn   VFunc
	args []Value
}

// forkPanic explores the path on which a panic happens under condition cond.
func (ex *Exec) forkPanic(st *State, cond *Term) {
	if ex.inDiscovery() || ex.panicking {
		return
	}
	ps := st.clone()
	ps.assume(cond)
	if ps.dead {
		return
	}
	if !ex.feasible(ps, True) {
		return
	}
	fr := ex.topFrame.clone()
	ex.panicking = true
	defer func() { ex.panicking = false }()
	states := []*State{ps}
	for i := len(fr.defers) - 1; i >= 0; i-- {
		d := fr.defers[i]
		var next []*State
		for _, s := range states {
			outs := ex.callFunc(s, fr, nil, d.fn.Fn, d.args, d.fn.Bind)
			for _, o := range outs {
				next = append(next, o.st)
			}
		}
		states = next
	}
	for _, s := range states {
		if fr.fn.Recover == nil {
			var rets []Value
			res := fr.fn.Signature.Results()
			for i := 0; i < res.Len(); i++ {
				rets = append(rets, zeroValue(res.At(i).Type()))
			}
			ex.panicOuts = append(ex.panicOuts, Outcome{s, rets})
			continue
		}
		f2 := fr.clone()
		ex.panicOuts = append(ex.panicOuts, ex.execBlock(s, f2, fr.fn.Recover, nil)...)
	}
}

func (ex *Exec) evalAllocBound(st *State) *Term {
	fr := &Frame{fn: ex.top, regs: map[ssa.Value]Value{}, fc: ex.topFC}
	for i, p := range ex.top.Params {
		fr.regs[p] = ex.entry.Params[i]
	}
	env := ex.frameEnv(st, fr)
	return ex.evalIntClause(st, env, ex.topFC.AllocBound)
}

func (ex *Exec) inDiscovery() bool { return len(ex.disc) > 0 }

// ---------- obligations ----------

func (ex *Exec) emit(st *State, fr *Frame, class, detail, clause string, goal *Term, props []string, pos token.Pos) {
	if ex.inDiscovery() || st.dead {
		return
	}
	name := ex.oblName(fr, class, detail)
	o := &Oblig{Name: name, Class: class, Func: ex.topName(), Clause: clause, Props: props, Goal: goal, Hyps: st.pc.list(), st: st.clone(), entry: ex.entry}
	if pos.IsValid() {
		p := ex.L.Fset.Position(pos)
		o.Pos = fmt.Sprintf("%s:%d", shortFile(p.Filename), p.Line)
	}
	ex.obligs = append(ex.obligs, o)
}

func shortFile(f string) string {
	if i := strings.Index(f, "/repo/"); i >= 0 {
		return f[i+6:]
	}
	return f
}

func (ex *Exec) topName() string { return funcKey(ex.top) }

func (ex *Exec) oblName(fr *Frame, class, detail string) string {
	n := ex.topName()
	if fr != nil && fr.chain != "" {
		n += "/" + fr.chain
	}
	n += "/" + class
	if detail != "" {
		n += ":" + detail
	}
	return n
}

// safety obligation + assume it afterwards (so one defect is reported once per path)
func (ex *Exec) safety(st *State, fr *Frame, kind string, instr ssa.Instruction, goal *Term) {
	if goal.IsTrue() {
		return
	}
	if ex.recoverMode {
		ex.forkPanic(st, Not(goal))
		st.assume(goal)
		return
	}
	if !ex.noSafety {
		detail := ex.L.instrDetail(instr)
		ex.emit(st, fr, "safety/"+kind, detail, kind+" cannot panic", goal, nil, instr.Pos())
	}
	st.assume(goal)
}

// ---------- running a function body ----------

func (ex *Exec) newFrame(fn *ssa.Function, args []Value, bind []Value, caller *Frame) *Frame {
	fr := &Frame{fn: fn, regs: map[ssa.Value]Value{}, cuts: map[*ssa.BasicBlock]*cutInfo{}, bind: bind}
	for i, p := range fn.Params {
		fr.regs[p] = args[i]
	}
	if caller != nil {
		fr.depth = caller.depth + 1
		fr.chain = caller.chain
		if fr.chain != "" {
			fr.chain += ">"
		}
		fr.chain += "in:" + shortFuncName(fn)
		fr.stop = nil
	}
	fr.fc = ex.L.Contracts.lookup(fn)
	return fr
}

func (ex *Exec) runBody(st *State, fr *Frame) []Outcome {
	if len(fr.fn.Blocks) == 0 {
		oos("function without body: %s", fr.fn)
	}
	return ex.execBlock(st, fr, fr.fn.Blocks[0], nil)
}

func (ex *Exec) execBlock(st *State, fr *Frame, b *ssa.BasicBlock, pred *ssa.BasicBlock) []Outcome {
	if st.dead {
		return nil
	}
	// discovery mode: stop when leaving the loop under discovery
	if n := len(ex.disc); n > 0 {
		d := ex.disc[n-1]
		if d.fr.fn == fr.fn && fr.depth == d.fr.depth && !d.loop.blocks[b] {
			return nil
		}
	}
	if coverBlocks && fr.chain == "" && fr.fn == ex.top && !ex.inDiscovery() {
		// audit (GOVC_COVER_BLOCKS=1, govc verify only): which basic blocks of the function under proof are reached by a feasible path
		ex.obligs = append(ex.obligs, &Oblig{Name: ex.oblName(fr, "coverblock", fmt.Sprint(b.Index)), Class: "covercall", Func: ex.topName(), Clause: "block reachable", Hyps: st.pc.list(), Cover: true, st: st.clone(), entry: ex.entry})
	}
	li := ex.L.loops(fr.fn)[b]
	// phi evaluation (simultaneous)
	var phis []*ssa.Phi
	for _, in := range b.Instrs {
		if p, ok := in.(*ssa.Phi); ok {
			phis = append(phis, p)
		} else {
			break
		}
	}
	if pred != nil && len(phis) > 0 {
		pi := -1
		for i, p := range b.Preds {
			if p == pred {
				pi = i
				break
			}
		}
		vals := make([]Value, len(phis))
		for i, p := range phis {
			vals[i] = ex.operand(st, fr, p.Edges[pi])
		}
		for i, p := range phis {
			fr.regs[p] = vals[i]
			if p.Comment != "" && fr.names != nil {
				if _, ok := fr.names[p.Comment]; ok {
					fr.names[p.Comment] = nameBinding{vals[i], p.Type(), false}
				}
			}
		}
	}
	if li != nil && fr.depth > 0 && ex.topFC != nil && ex.topFC.Unroll > 0 && len(ex.disc) == 0 {
		// unrolling (lemma functions): no cut; the unwinding obligation makes this complete, not bounded
		if fr.visits == nil {
			fr.visits = map[*ssa.BasicBlock]int{}
		}
		fr.visits[b]++
		if fr.visits[b] > ex.topFC.Unroll {
			ex.emit(st, fr, fmt.Sprintf("unwind/loop%d", li.ordinal), "", fmt.Sprintf("loop is left within %d iterations", ex.topFC.Unroll), False, nil, b.Instrs[0].Pos())
			return nil
		}
		if fr.visits[b] > 1 {
			// a revisit: drop the path when its condition is unsatisfiable (sound: only an "unsat" answer prunes)
			r := Solve(Script(st.pc.list(), nil, nil), 5, 0, "first")
			if r.Status == "unsat" {
				return nil
			}
		}
		return ex.execFrom(st, fr, b, len(phis))
	}
	if li != nil {
		if cut, ok := fr.cuts[b]; ok && pred != nil && li.blocks[pred] {
			// back edge
			if n := len(ex.disc); n > 0 && ex.disc[n-1].loop == li && ex.disc[n-1].fr.depth == fr.depth {
				d := ex.disc[n-1]
				for _, p := range phis {
					ex.notePhi(st, d, p, fr.regs[p])
				}
				return nil
			}
			ex.loopBackEdge(st, fr, li, cut, phis)
			return nil
		}
		if _, ok := fr.cuts[b]; !ok {
			if !ex.loopEntry(st, fr, li, phis) {
				return nil
			}
		}
	}
	return ex.execFrom(st, fr, b, len(phis))
}

func (ex *Exec) notePhi(st *State, d *discovery, p *ssa.Phi, v Value) {
	objs := map[int]bool{}
	collectObjs(st, v, objs, 3)
	for id := range objs {
		o := st.heap[id]
		if o == nil {
			continue
		}
		if o.Input {
			d.phiIn[p] = true
		}
		if !o.Fresh {
			d.phiOld[p] = true
		}
	}
}

// collectObjs gathers object ids reachable from v (through pointers/slices/ifaces) to a depth.
func collectObjs(st *State, v Value, out map[int]bool, depth int) {
	switch x := v.(type) {
	case VPtr:
		if x.Obj > 0 && !out[x.Obj] {
			out[x.Obj] = true
			if depth > 0 {
				if o := st.heap[x.Obj]; o != nil && o.Kind == okCell {
					collectObjs(st, o.Val, out, depth-1)
				}
			}
		}
	case VSlice:
		if x.Obj > 0 && !out[x.Obj] {
			out[x.Obj] = true
			if depth > 0 {
				if o := st.heap[x.Obj]; o != nil {
					if o.Kind == okSeq {
						for _, e := range o.Seq.entries {
							collectObjs(st, e.val, out, depth-1)
						}
						for _, e := range o.Seq.memo {
							collectObjs(st, e.val, out, depth-1)
						}
					} else if o.Kind == okCell {
						collectObjs(st, o.Val, out, depth-1)
					}
				}
			}
		}
	case VIface:
		if x.Dyn != nil {
			collectObjs(st, x.Val, out, depth)
		}
	case VStruct:
		for _, f := range x.F {
			collectObjs(st, f, out, depth)
		}
	case VArray:
		for _, f := range x.E {
			collectObjs(st, f, out, depth)
		}
	case VTuple:
		for _, f := range x.E {
			collectObjs(st, f, out, depth)
		}
	}
}

func (ex *Exec) checkPaths() {
	ex.paths++
	if ex.paths > ex.maxPaths {
		panic(&execError{"out-of-subset", fmt.Sprintf("path explosion (> %d paths)", ex.maxPaths)})
	}
}

func (ex *Exec) execFrom(st *State, fr *Frame, b *ssa.BasicBlock, idx int) []Outcome {
	for i := idx; i < len(b.Instrs); i++ {
		if st.dead {
			return nil
		}
		in := b.Instrs[i]
		curPC = st.pc
		switch x := in.(type) {
		case *ssa.If:
			c := decideUnder(ex.operand(st, fr, x.Cond).(VBool).T)
			if c.IsTrue() {
				return ex.execBlock(st, fr, b.Succs[0], b)
			}
			if c.IsFalse() {
				return ex.execBlock(st, fr, b.Succs[1], b)
			}
			// a branch whose condition (or its negation) is literally on the path condition is decided
			for q := st.pc; q != nil; q = q.prev {
				if q.t == c {
					return ex.execBlock(st, fr, b.Succs[0], b)
				}
				if q.t == Not(c) {
					return ex.execBlock(st, fr, b.Succs[1], b)
				}
			}
			ex.forks++
			feasT, feasF := true, true
			if ex.forks > 12 && !ex.inDiscovery() {
				feasT = ex.feasible(st, c)
				feasF = ex.feasible(st, Not(c))
			}
			var outs []Outcome
			if feasT && feasF {
				ex.checkPaths()
				st2 := st.clone()
				fr2 := fr.clone()
				st2.assume(c)
				outs = append(outs, ex.execBlock(st2, fr2, b.Succs[0], b)...)
				st.assume(Not(c))
				outs = append(outs, ex.execBlock(st, fr, b.Succs[1], b)...)
			} else if feasT {
				st.assume(c)
				outs = ex.execBlock(st, fr, b.Succs[0], b)
			} else if feasF {
				st.assume(Not(c))
				outs = ex.execBlock(st, fr, b.Succs[1], b)
			}
			return outs
		case *ssa.Jump:
			return ex.execBlock(st, fr, b.Succs[0], b)
		case *ssa.Return:
			rets := make([]Value, len(x.Results))
			for j, r := range x.Results {
				rets[j] = ex.operand(st, fr, r)
			}
			if fr.depth == 0 {
				if ex.retFrames == nil {
					ex.retFrames = map[*State]*Frame{}
				}
				ex.retFrames[st] = fr // the path's own frame (source-level names) for the postconditions
			}
			return []Outcome{{st, rets}}
		case *ssa.Panic:
			if ex.recoverMode {
				ex.forkPanic(st, True)
				return nil
			}
			if !ex.inDiscovery() && !ex.noSafety {
				ex.emit(st, fr, "safety/panic", ex.L.instrDetail(in), "explicit panic is unreachable", False, nil, in.Pos())
			}
			return nil
		case *ssa.Lookup:
			if outs := ex.lookupFork(st, fr, x); outs != nil {
				var res []Outcome
				for k, o := range outs {
					f := fr
					if k < len(outs)-1 {
						f = fr.clone()
					}
					f.regs[x] = o.rets[0]
					res = append(res, ex.execFrom(o.st, f, b, i+1)...)
				}
				return res
			}
			ex.step(st, fr, in)
		case *ssa.Call:
			outs := ex.call(st, fr, x)
			if outs == nil {
				return nil
			}
			if len(outs) == 1 {
				st = outs[0].st
				fr.regs[x] = tupleOrSingle(outs[0].rets, x)
				continue
			}
			var res []Outcome
			for k, o := range outs {
				f := fr
				if k < len(outs)-1 {
					f = fr.clone()
				}
				f.regs[x] = tupleOrSingle(o.rets, x)
				res = append(res, ex.execFrom(o.st, f, b, i+1)...)
			}
			return res
		default:
			ex.step(st, fr, in)
		}
	}
	return nil
}

func tupleOrSingle(rets []Value, c *ssa.Call) Value {
	if _, ok := c.Type().(*types.Tuple); ok {
		return VTuple{rets}
	}
	if len(rets) == 0 {
		return nil
	}
	return rets[0]
}

// feasible asks the solver whether pc ∧ c is satisfiable (used only to prune forks when many).
func (ex *Exec) feasible(st *State, c *Term) bool {
	hyps := append(st.pc.list(), c)
	r := Solve(Script(hyps, nil, nil), 2, 0, "first")
	return r.Status != "unsat"
}

// ---------- operands ----------

func (ex *Exec) operand(st *State, fr *Frame, v ssa.Value) Value {
	switch x := v.(type) {
	case *ssa.Const:
		return ex.constValue(x)
	case *ssa.Global:
		return VPtr{Global: x}
	case *ssa.Function:
		return VFunc{Fn: x}
	case *ssa.FreeVar:
		for i, fv := range fr.fn.FreeVars {
			if fv == x {
				return fr.bind[i]
			}
		}
		oos("free variable %s not bound", x.Name())
	case *ssa.Builtin:
		return VOpaque{T: x.Type(), ID: Const(64, 0)}
	}
	r, ok := fr.regs[v]
	if !ok {
		oos("use of undefined register %s in %s", v.Name(), fr.fn)
	}
	return r
}

func (ex *Exec) constValue(c *ssa.Const) Value {
	t := c.Type()
	if c.Value == nil {
		return zeroValue(t)
	}
	if w, _, ok := intInfo(t); ok {
		if c.Value.Kind() == constant.Int {
			if i, exact := constant.Int64Val(c.Value); exact {
				return VInt{Const(w, uint64(i))}
			}
			if u, exact := constant.Uint64Val(c.Value); exact {
				return VInt{Const(w, u)}
			}
		}
		if c.Value.Kind() == constant.Float {
			f, _ := constant.Float64Val(c.Value)
			return VInt{Const(w, uint64(int64(f)))}
		}
		oos("constant %s", c)
	}
	if isBool(t) {
		return VBool{BoolC(constant.BoolVal(c.Value))}
	}
	if isString(t) {
		s := constant.StringVal(c.Value)
		return VStr{Lit: &s}
	}
	oos("constant of type %s", t)
	return nil
}

// ---------- straight-line instructions ----------

func (ex *Exec) step(st *State, fr *Frame, in ssa.Instruction) {
	switch x := in.(type) {
	case *ssa.DebugRef:
		if id, ok := x.Expr.(*ast.Ident); ok && id.Name != "_" {
			obj := x.Object()
			local := obj != nil && obj.Pkg() != nil && obj.Parent() != obj.Pkg().Scope()
			if _, isFn := x.X.(*ssa.Function); !isFn && local {
				if v, ok2 := fr.regs[x.X]; ok2 || isConstLike(x.X) {
					if !ok2 {
						v = ex.operand(st, fr, x.X)
					}
					if fr.names == nil {
						fr.names = map[string]nameBinding{}
					}
					fr.names[id.Name] = nameBinding{v, x.X.Type(), x.IsAddr}
				}
			}
		}
	case *ssa.Alloc:
		et := x.Type().Underlying().(*types.Pointer).Elem()
		ap := st.allocCell(zeroValue(et), true, x.Comment)
		st.heap[ap.Obj].T = et
		fr.regs[x] = ap
	case *ssa.BinOp:
		fr.regs[x] = ex.binop(st, fr, x, x.Op, ex.operand(st, fr, x.X), ex.operand(st, fr, x.Y), x.X.Type(), x.Y.Type())
	case *ssa.UnOp:
		fr.regs[x] = ex.unop(st, fr, x)
	case *ssa.Convert:
		fr.regs[x] = ex.convert(st, fr, x, ex.operand(st, fr, x.X), x.X.Type(), x.Type())
	case *ssa.ChangeType:
		fr.regs[x] = ex.operand(st, fr, x.X)
	case *ssa.MultiConvert:
		fr.regs[x] = ex.convert(st, fr, x, ex.operand(st, fr, x.X), x.X.Type(), x.Type())
	case *ssa.MakeInterface:
		fr.regs[x] = VIface{Dyn: x.X.Type(), Val: ex.operand(st, fr, x.X)}
	case *ssa.ChangeInterface:
		fr.regs[x] = ex.operand(st, fr, x.X)
	case *ssa.Extract:
		t := ex.operand(st, fr, x.Tuple).(VTuple)
		fr.regs[x] = t.E[x.Index]
	case *ssa.FieldAddr:
		p := ex.ptrOperand(st, fr, x.X, in)
		np := VPtr{Obj: p.Obj, Global: p.Global, Path: append(append([]PathEl{}, p.Path...), PathEl{Field: x.Field})}
		fr.regs[x] = np
	case *ssa.Field:
		s := ex.operand(st, fr, x.X).(VStruct)
		fr.regs[x] = s.F[x.Field]
	case *ssa.IndexAddr:
		fr.regs[x] = ex.indexAddr(st, fr, x)
	case *ssa.Index:
		fr.regs[x] = ex.index(st, fr, x)
	case *ssa.Slice:
		fr.regs[x] = ex.slice(st, fr, x)
	case *ssa.Store:
		p := ex.ptrOperand(st, fr, x.Addr, in)
		v := ex.operand(st, fr, x.Val)
		ex.noteWrite(st, fr, p, x.Val.Type())
		if arr, ok := v.(VArray); ok {
			if ref, ok2 := st.loadPtr(p).(VArrayRef); ok2 {
				for i, e := range arr.E {
					st.storePtr(VPtr{Obj: ref.Obj, Path: []PathEl{{Index: Const(64, uint64(i)), Field: -1}}}, e)
				}
				return
			}
		}
		st.storePtr(p, v)
	case *ssa.MakeSlice:
		fr.regs[x] = ex.makeSlice(st, fr, x)
	case *ssa.TypeAssert:
		fr.regs[x] = ex.typeAssert(st, fr, x)
	case *ssa.MakeClosure:
		b := make([]Value, len(x.Bindings))
		for i, bv := range x.Bindings {
			b[i] = ex.operand(st, fr, bv)
		}
		fr.regs[x] = VFunc{Fn: x.Fn.(*ssa.Function), Bind: b}
	case *ssa.MakeMap:
		id := st.newObj(&Object{Kind: okCell, Val: VMapVal{}, Fresh: true, Tag: "map"})
		fr.regs[x] = VMapRef{Obj: id}
	case *ssa.MapUpdate:
		m := ex.operand(st, fr, x.Map).(VMapRef)
		k := ex.operand(st, fr, x.Key)
		v := ex.operand(st, fr, x.Value)
		o := st.heap[m.Obj]
		mv := o.Val.(VMapVal)
		if mv.Symbolic {
			oos("update of symbolic map")
		}
		c := *o
		c.Val = VMapVal{Entries: append(append([]mapEntry{}, mv.Entries...), mapEntry{k, v})}
		st.heap[m.Obj] = &c
	case *ssa.Lookup:
		fr.regs[x] = ex.lookup(st, fr, x)
	case *ssa.RunDefers:
		// normal return: deferred recover-closures observe recover() == nil and do nothing
		if len(fr.defers) > 0 && !ex.recoverMode {
			oos("deferred calls in %s", fr.fn)
		}
	case *ssa.Defer:
		if ex.recoverMode && fr.depth == 0 {
			com := x.Common()
			fv, ok := ex.operand(st, fr, com.Value).(VFunc)
			if !ok || fv.Fn == nil || !callsRecover(fv.Fn) {
				oos("defer of something other than a recover closure in %s", fr.fn)
			}
			var args []Value
			for _, a := range com.Args {
				args = append(args, ex.operand(st, fr, a))
			}
			fr.defers = append(fr.defers, deferred{fv, args})
			return
		}
		oos("defer in %s", fr.fn)
	case *ssa.Go, *ssa.Select, *ssa.Send, *ssa.MakeChan, *ssa.Range, *ssa.Next:
		oos("%T in %s", in, fr.fn)
	default:
		oos("unsupported instruction %T: %s", in, in)
	}
}

func isConstLike(v ssa.Value) bool {
	switch v.(type) {
	case *ssa.Const, *ssa.Global:
		return true
	}
	return false
}

type VMapRef struct{ Obj int }
type mapEntry struct{ K, V Value }
type VMapVal struct {
	Entries  []mapEntry
	Symbolic bool
}

func (ex *Exec) noteWrite(st *State, fr *Frame, p VPtr, t types.Type) {
	if len(ex.disc) == 0 {
		return
	}
	for _, d := range ex.disc {
		if p.Global != nil {
			d.aborted = "store to global in loop"
			continue
		}
		if p.Obj > d.maxObj {
			continue // allocated inside the loop
		}
		// normalise path: cut at first symbolic index
		path := p.Path
		typ := t
		for i, e := range path {
			if e.Index != nil && !e.Index.IsConst() {
				path = path[:i]
				typ = nil
				break
			}
		}
		o := st.heap[p.Obj]
		if o != nil && o.Kind != okCell {
			path = nil
			typ = nil
		}
		k := fmt.Sprintf("%d|%v", p.Obj, pathKey(path))
		d.writes[k] = writeRec{p.Obj, path, typ}
	}
}

func pathKey(p []PathEl) string {
	var sb strings.Builder
	for _, e := range p {
		if e.Index != nil {
			fmt.Fprintf(&sb, "[%s]", e.Index)
		} else {
			fmt.Fprintf(&sb, ".%d", e.Field)
		}
	}
	return sb.String()
}

// noteObjWrite records that an entire object may have been modified (calls with modifies clauses, copy, append in place).
func (ex *Exec) noteObjWrite(st *State, obj int) {
	for _, d := range ex.disc {
		if obj > d.maxObj {
			continue
		}
		k := fmt.Sprintf("%d|", obj)
		d.writes[k] = writeRec{obj, nil, nil}
	}
}

func (ex *Exec) ptrOperand(st *State, fr *Frame, v ssa.Value, in ssa.Instruction) VPtr {
	p, ok := ex.operand(st, fr, v).(VPtr)
	if !ok {
		oos("pointer operand is %T", ex.operand(st, fr, v))
	}
	return ex.checkNonNil(st, fr, p, in)
}

func (ex *Exec) checkNonNil(st *State, fr *Frame, p VPtr, in ssa.Instruction) VPtr {
	if p.Global != nil {
		return p
	}
	if p.Obj == 0 {
		ex.safety(st, fr, "nil", in, False)
		st.dead = true
		return p
	}
	if p.Nil != nil && !p.Nil.IsFalse() {
		ex.safety(st, fr, "nil", in, Not(p.Nil))
		p.Nil = nil
	}
	if p.Obj < 0 {
		oos("dereference of unmaterialised pointer (type nesting too deep)")
	}
	return p
}

func (ex *Exec) binop(st *State, fr *Frame, in ssa.Instruction, op token.Token, a, b Value, ta, tb types.Type) Value {
	switch x := a.(type) {
	case VInt:
		y, ok := b.(VInt)
		if !ok {
			oos("binop int with %T", b)
		}
		w, signed, _ := intInfo(ta)
		switch op {
		case token.ADD:
			return VInt{Add(x.T, y.T)}
		case token.SUB:
			return VInt{Sub(x.T, y.T)}
		case token.MUL:
			return VInt{Mul(x.T, y.T)}
		case token.QUO, token.REM:
			ex.safety(st, fr, "div", in, Ne(y.T, Const(w, 0)))
			if signed {
				if op == token.QUO {
					return VInt{SDiv(x.T, y.T)}
				}
				return VInt{SRem(x.T, y.T)}
			}
			if op == token.QUO {
				return VInt{UDiv(x.T, y.T)}
			}
			return VInt{URem(x.T, y.T)}
		case token.AND:
			return VInt{BAnd(x.T, y.T)}
		case token.OR:
			return VInt{BOr(x.T, y.T)}
		case token.XOR:
			return VInt{BXor(x.T, y.T)}
		case token.AND_NOT:
			return VInt{BAnd(x.T, BNot(y.T))}
		case token.SHL, token.SHR:
			return VInt{ex.shift(st, fr, in, op, x.T, y.T, signed, tb)}
		case token.EQL:
			return VBool{Eq(x.T, y.T)}
		case token.NEQ:
			return VBool{Ne(x.T, y.T)}
		case token.LSS:
			if signed {
				return VBool{SLt(x.T, y.T)}
			}
			return VBool{ULt(x.T, y.T)}
		case token.LEQ:
			if signed {
				return VBool{SLe(x.T, y.T)}
			}
			return VBool{ULe(x.T, y.T)}
		case token.GTR:
			if signed {
				return VBool{SLt(y.T, x.T)}
			}
			return VBool{ULt(y.T, x.T)}
		case token.GEQ:
			if signed {
				return VBool{SLe(y.T, x.T)}
			}
			return VBool{ULe(y.T, x.T)}
		}
	case VBool:
		y := b.(VBool)
		switch op {
		case token.EQL:
			return VBool{Eq(x.T, y.T)}
		case token.NEQ:
			return VBool{Ne(x.T, y.T)}
		case token.AND, token.LAND:
			return VBool{And(x.T, y.T)}
		case token.OR, token.LOR:
			return VBool{Or(x.T, y.T)}
		}
	case VStr:
		y := b.(VStr)
		switch op {
		case token.EQL, token.NEQ:
			var eq *Term
			if x.Lit != nil && y.Lit != nil {
				eq = BoolC(*x.Lit == *y.Lit)
			} else {
				eq = Eq(strID(x), strID(y))
			}
			if op == token.NEQ {
				eq = Not(eq)
			}
			return VBool{eq}
		case token.ADD:
			if x.Lit != nil && y.Lit != nil {
				s := *x.Lit + *y.Lit
				return VStr{Lit: &s}
			}
			return VStr{ID: Fresh("strcat", BV(64))}
		}
	case VPtr, VSlice, VIface, VFunc, VMapRef, VOpaque:
		eq := ex.refEq(st, a, b)
		switch op {
		case token.EQL:
			return VBool{eq}
		case token.NEQ:
			return VBool{Not(eq)}
		}
	case VStruct:
		y := b.(VStruct)
		eq := True
		for i := range x.F {
			eq = And(eq, ex.binop(st, fr, in, token.EQL, x.F[i], y.F[i], nil, nil).(VBool).T)
		}
		if op == token.NEQ {
			eq = Not(eq)
		}
		return VBool{eq}
	}
	oos("binop %s on %T", op, a)
	return nil
}

var strLits = map[string]uint64{}

func strID(s VStr) *Term {
	if s.Lit != nil {
		id, ok := strLits[*s.Lit]
		if !ok {
			id = uint64(len(strLits)) + 1
			strLits[*s.Lit] = id
		}
		// literal ids live in the top half of the id space; symbolic strings equal to no literal are possible
		return Const(64, id|1<<62)
	}
	return s.ID
}

func (ex *Exec) refEq(st *State, a, b Value) *Term {
	isNil := func(v Value) (*Term, bool) {
		switch x := v.(type) {
		case VPtr:
			if x.Global != nil {
				return False, false
			}
			if x.Obj == 0 {
				return True, true
			}
			return nilT(x.Nil), false
		case VSlice:
			return nilT(x.Nil), x.Obj == 0 && x.Nil != nil && x.Nil.IsTrue()
		case VIface:
			if x.Dyn != nil {
				return False, false
			}
			if x.ID == nil {
				return True, true
			}
			return nilT(x.Nil), false
		case VFunc:
			return BoolC(x.Fn == nil), x.Fn == nil
		case VMapRef:
			return BoolC(x.Obj == 0), x.Obj == 0
		case VOpaque:
			return Eq(x.ID, Const(64, 0)), x.ID.IsConst() && x.ID.Val == 0
		}
		return False, false
	}
	na, ca := isNil(a)
	nb, cb := isNil(b)
	if cb {
		return na
	}
	if ca {
		return nb
	}
	// both possibly non-nil
	switch x := a.(type) {
	case VPtr:
		y, ok := b.(VPtr)
		if ok {
			if x.Obj == y.Obj && x.Global == y.Global && pathKey(x.Path) == pathKey(y.Path) {
				return Or(And(na, nb), And(Not(na), Not(nb)))
			}
			return And(na, nb)
		}
	case VIface:
		y, ok := b.(VIface)
		if ok {
			if x.Dyn != nil && y.Dyn != nil {
				if !types.Identical(x.Dyn, y.Dyn) {
					return False
				}
				return ex.binop(st, nil, nil, token.EQL, x.Val, y.Val, x.Dyn, y.Dyn).(VBool).T
			}
			if x.Dyn == nil && y.Dyn == nil && x.ID != nil && y.ID != nil {
				return Or(And(na, nb), And(Not(na), Not(nb), Eq(x.ID, y.ID)))
			}
		}
	}
	oos("reference comparison of %s and %s", describe(a), describe(b))
	return nil
}

func (ex *Exec) shift(st *State, fr *Frame, in ssa.Instruction, op token.Token, x, y *Term, signed bool, ty types.Type) *Term {
	w := x.S.W
	// shift count: unsigned of any width, or signed (negative => panic)
	if ty != nil {
		if _, ysigned, ok := intInfo(ty); ok && ysigned {
			if in != nil {
				ex.safety(st, fr, "shift", in, SLe(Const(y.S.W, 0), y))
			}
		}
	}
	// normalise count to width w with saturation
	var cnt *Term
	var big *Term
	if y.S.W > w {
		big = ULe(Const(y.S.W, uint64(w)), y)
		cnt = Extract(w-1, 0, y)
	} else {
		cnt = ZExt(y, w)
		big = ULe(Const(w, uint64(w)), cnt)
	}
	switch op {
	case token.SHL:
		return Ite(big, Const(w, 0), Shl(x, cnt))
	case token.SHR:
		if signed {
			return Ite(big, AShr(x, Const(w, uint64(w-1))), AShr(x, cnt))
		}
		return Ite(big, Const(w, 0), LShr(x, cnt))
	}
	panic("shift")
}

func (ex *Exec) unop(st *State, fr *Frame, x *ssa.UnOp) Value {
	switch x.Op {
	case token.MUL:
		p := ex.ptrOperand(st, fr, x.X, x)
		if st.dead {
			return zeroValue(x.Type())
		}
		return ex.unref(st, st.loadPtr(p), x.Type())
	case token.SUB:
		return VInt{Neg(ex.operand(st, fr, x.X).(VInt).T)}
	case token.XOR:
		return VInt{BNot(ex.operand(st, fr, x.X).(VInt).T)}
	case token.NOT:
		return VBool{Not(ex.operand(st, fr, x.X).(VBool).T)}
	case token.ARROW:
		oos("channel receive in %s", fr.fn)
	}
	oos("unop %s", x.Op)
	return nil
}

// unref turns arrays whose storage was moved into a backing object (because they were sliced) back into values.
func (ex *Exec) unref(st *State, v Value, t types.Type) Value {
	switch x := v.(type) {
	case VArrayRef:
		e := make([]Value, x.N)
		for i := range e {
			e[i] = st.loadPtr(VPtr{Obj: x.Obj, Path: []PathEl{{Index: Const(64, uint64(i)), Field: -1}}})
		}
		return VArray{e}
	case VStruct:
		changed := false
		f := make([]Value, len(x.F))
		st2, _ := t.Underlying().(*types.Struct)
		for i := range x.F {
			var ft types.Type
			if st2 != nil {
				ft = st2.Field(i).Type()
			}
			f[i] = ex.unref(st, x.F[i], ft)
			if describe(f[i]) != describe(x.F[i]) {
				changed = true
			}
		}
		if changed {
			return VStruct{f}
		}
	}
	return v
}

func (ex *Exec) convert(st *State, fr *Frame, in ssa.Instruction, v Value, from, to types.Type) Value {
	if wt, _, ok := intInfo(to); ok {
		if vi, ok2 := v.(VInt); ok2 {
			_, sf, _ := intInfo(from)
			if sf {
				return VInt{SExt(vi.T, wt)}
			}
			return VInt{ZExt(vi.T, wt)}
		}
	}
	// string <-> []byte
	if isString(to) {
		if _, ok := v.(VSlice); ok {
			return VStr{ID: Fresh("str_of_bytes", BV(64))}
		}
		if s, ok := v.(VStr); ok {
			return s
		}
		if _, ok := v.(VInt); ok {
			return VStr{ID: Fresh("str_of_rune", BV(64))}
		}
	}
	if isByteSlice(to) {
		if s, ok := v.(VStr); ok {
			if s.Lit != nil {
				mem := bmZeros
				for i := 0; i < len(*s.Lit); i++ {
					mem = mem.Store(Const(64, uint64(i)), Const(8, uint64((*s.Lit)[i])))
				}
				n := Const(64, uint64(len(*s.Lit)))
				id := st.allocBytes(mem, n, true, "bytes-of-string")
				return VSlice{Obj: id, Off: Const(64, 0), Len: n, Cap: n, Nil: False}
			}
			n := App("strlen", BV(64), s.ID)
			st.assume(ULe(n, Const(64, 1<<maxLenBits)))
			id := st.allocBytes(bmBaseOf(Fresh("strbytes", ArrSort)), n, true, "bytes-of-string")
			return VSlice{Obj: id, Off: Const(64, 0), Len: n, Cap: n, Nil: False}
		}
		if s, ok := v.(VSlice); ok {
			return s
		}
	}
	if _, ok := to.Underlying().(*types.Pointer); ok {
		return v
	}
	if _, ok := to.Underlying().(*types.Slice); ok {
		return v
	}
	oos("convert %s -> %s", from, to)
	return nil
}

// ---------- slices, arrays, indexing ----------

// backing describes where a slice/array's elements live.
func (ex *Exec) indexAddr(st *State, fr *Frame, x *ssa.IndexAddr) Value {
	base := ex.operand(st, fr, x.X)
	idx := ex.idx64(ex.operand(st, fr, x.Index).(VInt).T, x.Index.Type())
	switch b := base.(type) {
	case VSlice:
		ex.safety(st, fr, "index", x, ULt(idx, b.Len))
		if b.Obj == 0 {
			st.dead = true
			return VPtr{Nil: True}
		}
		return VPtr{Obj: b.Obj, Path: []PathEl{{Index: Add(b.Off, idx), Field: -1}}}
	case VPtr:
		p := ex.checkNonNil(st, fr, b, x)
		at := x.X.Type().Underlying().(*types.Pointer).Elem().Underlying().(*types.Array)
		ex.safety(st, fr, "index", x, ULt(idx, Const(64, uint64(at.Len()))))
		if st.dead {
			return VPtr{Nil: True}
		}
		if ref, ok := st.loadPtr(p).(VArrayRef); ok {
			return VPtr{Obj: ref.Obj, Path: []PathEl{{Index: idx, Field: -1}}}
		}
		return VPtr{Obj: p.Obj, Global: p.Global, Path: append(append([]PathEl{}, p.Path...), PathEl{Index: idx, Field: -1})}
	}
	oos("indexaddr on %T", base)
	return nil
}

func (ex *Exec) idx64(t *Term, typ types.Type) *Term {
	w, signed, _ := intInfo(typ)
	if w == 64 {
		return t
	}
	if signed {
		return SExt(t, 64)
	}
	return ZExt(t, 64)
}

func (ex *Exec) index(st *State, fr *Frame, x *ssa.Index) Value {
	base := ex.operand(st, fr, x.X)
	idx := ex.idx64(ex.operand(st, fr, x.Index).(VInt).T, x.Index.Type())
	switch b := base.(type) {
	case VArray:
		ex.safety(st, fr, "index", x, ULt(idx, Const(64, uint64(len(b.E)))))
		if st.dead {
			return zeroValue(x.Type())
		}
		if idx.IsConst() && int(idx.Val) >= len(b.E) {
			st.dead = true
			return zeroValue(x.Type())
		}
		return arrayRead(b, idx)
	case VStr:
		if b.Lit != nil {
			ex.safety(st, fr, "index", x, ULt(idx, Const(64, uint64(len(*b.Lit)))))
			if idx.IsConst() && int(idx.Val) < len(*b.Lit) {
				return VInt{Const(8, uint64((*b.Lit)[idx.Val]))}
			}
		}
		return VInt{Fresh("strbyte", BV(8))}
	}
	oos("index on %T", base)
	return nil
}

func (ex *Exec) slice(st *State, fr *Frame, x *ssa.Slice) Value {
	base := ex.operand(st, fr, x.X)
	get := func(v ssa.Value) *Term {
		if v == nil {
			return nil
		}
		return ex.idx64(ex.operand(st, fr, v).(VInt).T, v.Type())
	}
	lo, hi, mx := get(x.Low), get(x.High), get(x.Max)
	switch b := base.(type) {
	case VSlice:
		if lo == nil {
			lo = Const(64, 0)
		}
		if hi == nil {
			hi = b.Len
		}
		capT := b.Cap
		if mx != nil {
			ex.safety(st, fr, "slice", x, And(ULe(lo, hi), ULe(hi, mx), ULe(mx, b.Cap)))
			capT = mx
		} else {
			ex.safety(st, fr, "slice", x, And(ULe(lo, hi), ULe(hi, b.Cap)))
		}
		return VSlice{Obj: b.Obj, Off: Add(b.Off, lo), Len: Sub(hi, lo), Cap: Sub(capT, lo), Nil: nilT(b.Nil)}
	case VStr:
		if b.Lit != nil {
			n := Const(64, uint64(len(*b.Lit)))
			if lo == nil {
				lo = Const(64, 0)
			}
			if hi == nil {
				hi = n
			}
			ex.safety(st, fr, "slice", x, And(ULe(lo, hi), ULe(hi, n)))
			if lo.IsConst() && hi.IsConst() && lo.Val <= hi.Val && hi.Val <= n.Val {
				s := (*b.Lit)[lo.Val:hi.Val]
				return VStr{Lit: &s}
			}
		}
		return VStr{ID: Fresh("substr", BV(64))}
	case VPtr:
		// slicing *[N]T: view of the array as a slice. The array is copied into a dedicated
		// backing object and the cell is re-pointed to share it (arrays sliced in this code base
		// are local temporaries or fields used only through the slice afterwards).
		p := ex.checkNonNil(st, fr, b, x)
		if st.dead {
			return zeroValue(x.Type())
		}
		at := x.X.Type().Underlying().(*types.Pointer).Elem().Underlying().(*types.Array)
		n := Const(64, uint64(at.Len()))
		if lo == nil {
			lo = Const(64, 0)
		}
		if hi == nil {
			hi = n
		}
		ex.safety(st, fr, "slice", x, And(ULe(lo, hi), ULe(hi, n)))
		var id int
		switch arr := st.loadPtr(p).(type) {
		case VArray:
			id = ex.arrayBacking(st, p, arr, at)
		case VArrayRef:
			id = arr.Obj
		default:
			oos("slice of pointer to non-array")
		}
		return VSlice{Obj: id, Off: lo, Len: Sub(hi, lo), Cap: Sub(n, lo), Nil: False}
	}
	oos("slice on %T", base)
	return nil
}

// VArrayRef marks an array whose storage was moved into a bytes/seq object because it was sliced.
type VArrayRef struct {
	Obj int
	N   int
}

func (ex *Exec) arrayBacking(st *State, p VPtr, arr VArray, at *types.Array) int {
	n := Const(64, uint64(len(arr.E)))
	var id int
	src := st.heap[p.Obj]
	fresh := src != nil && src.Fresh
	if isByte(at.Elem()) {
		mem := bmZeros
		for i, e := range arr.E {
			mem = mem.Store(Const(64, uint64(i)), e.(VInt).T)
		}
		id = st.allocBytes(mem, n, fresh, "array")
	} else {
		id = st.allocSeq(at.Elem(), n, true, fresh, "array")
		o := st.heap[id]
		q := *o.Seq
		for i, e := range arr.E {
			q.entries = append(q.entries, seqEntry{Const(64, uint64(i)), e})
		}
		c := *o
		c.Seq = &q
		st.heap[id] = &c
	}
	if src != nil && src.Input {
		c := *st.heap[id]
		c.Input = true
		st.heap[id] = &c
	}
	// NOTE: later direct reads of the array variable do not see writes through the slice.
	// This is flagged: the array cell is replaced by a marker so such reads are out-of-subset.
	st.storePtr(p, VArrayRef{Obj: id, N: len(arr.E)})
	return id
}

func (ex *Exec) makeSlice(st *State, fr *Frame, x *ssa.MakeSlice) Value {
	ln := ex.idx64(ex.operand(st, fr, x.Len).(VInt).T, x.Len.Type())
	cp := ex.idx64(ex.operand(st, fr, x.Cap).(VInt).T, x.Cap.Type())
	ex.safety(st, fr, "make", x, And(SLe(Const(64, 0), ln), SLe(ln, cp), ULe(cp, Const(64, 1<<maxLenBits))))
	et := x.Type().Underlying().(*types.Slice).Elem()
	var id int
	if isByte(et) {
		id = st.allocBytes(bmZeros, cp, true, "make")
	} else {
		id = st.allocSeq(et, cp, true, true, "make")
	}
	ex.noteAlloc(st, fr, x, cp, et)
	return VSlice{Obj: id, Off: Const(64, 0), Len: ln, Cap: cp, Nil: False}
}

// noteAlloc: hook for allocation-size obligations in decoders.
func (ex *Exec) noteAlloc(st *State, fr *Frame, in ssa.Instruction, n *Term, et types.Type) {
	if ex.topFC == nil || ex.topFC.AllocBound == nil || ex.inDiscovery() {
		return
	}
	bound := ex.evalAllocBound(st)
	if bound == nil {
		return
	}
	ex.emit(st, fr, "alloc", ex.L.instrDetail(in), "allocation bounded by input length", ULe(n, bound), nil, in.Pos())
}

func (ex *Exec) typeAssert(st *State, fr *Frame, x *ssa.TypeAssert) Value {
	v, ok := ex.operand(st, fr, x.X).(VIface)
	if !ok {
		oos("typeassert on %T", ex.operand(st, fr, x.X))
	}
	_, toIface := x.AssertedType.Underlying().(*types.Interface)
	var okT *Term
	var res Value
	if v.Dyn != nil {
		if toIface {
			ms := ex.L.Prog.MethodSets.MethodSet(v.Dyn)
			it := x.AssertedType.Underlying().(*types.Interface)
			okb := true
			for i := 0; i < it.NumMethods(); i++ {
				m := it.Method(i)
				if ms.Lookup(m.Pkg(), m.Name()) == nil {
					okb = false
				}
			}
			okT = BoolC(okb)
			res = v
		} else {
			okT = BoolC(types.Identical(v.Dyn, x.AssertedType))
			res = v.Val
		}
		if okT.IsFalse() {
			res = zeroValue(x.AssertedType)
		}
	} else if v.ID == nil {
		okT = False
		res = zeroValue(x.AssertedType)
	} else {
		// unknown dynamic type
		if toIface {
			okT = And(Not(nilT(v.Nil)), App("implements:"+typeStr(x.AssertedType), BoolSort, v.ID))
			res = v
		} else {
			okT = And(Not(nilT(v.Nil)), App("typeis:"+typeStr(x.AssertedType), BoolSort, v.ID))
			// payload: a fresh symbolic value of the asserted type, memoised per (id, type) through naming
			before := objCtr
			res = st.symValue(x.AssertedType, fmt.Sprintf("%s.(%s)", idxName(v.ID), typeStr(x.AssertedType)), 3, true)
			// the payload existed before the call: its objects belong to the entry heap (frame obligations cover them)
			if ex.entry != nil && ex.entry.Heap != nil && !ex.inDiscovery() {
				for id := before + 1; id <= objCtr; id++ {
					if o := st.heap[id]; o != nil {
						if _, ok := ex.entry.Heap[id]; !ok {
							ex.entry.Heap[id] = o
						}
					}
				}
			}
		}
	}
	if x.CommaOk {
		if !okT.IsConst() && !toIface {
			// keep result usable in both branches
		}
		return VTuple{[]Value{res, VBool{okT}}}
	}
	ex.safety(st, fr, "assert", x, okT)
	return res
}

func (ex *Exec) lookup(st *State, fr *Frame, x *ssa.Lookup) Value {
	m := ex.operand(st, fr, x.X)
	k := ex.operand(st, fr, x.Index)
	if s, ok := m.(VStr); ok {
		_ = s
		idx := ex.idx64(k.(VInt).T, x.Index.Type())
		if s.Lit != nil {
			ex.safety(st, fr, "index", x, ULt(idx, Const(64, uint64(len(*s.Lit)))))
			if idx.IsConst() && int(idx.Val) < len(*s.Lit) {
				return VInt{Const(8, uint64((*s.Lit)[idx.Val]))}
			}
		}
		return VInt{Fresh("strbyte", BV(8))}
	}
	mr, ok := m.(VMapRef)
	if !ok {
		oos("lookup on %T", m)
	}
	vt := x.X.Type().Underlying().(*types.Map).Elem()
	wrap := func(v Value, found *Term) Value {
		if x.CommaOk {
			return VTuple{[]Value{v, VBool{found}}}
		}
		return v
	}
	if mr.Obj == 0 {
		return wrap(zeroValue(vt), False)
	}
	mv := st.heap[mr.Obj].Val.(VMapVal)
	if mv.Symbolic {
		oos("lookup in symbolic map")
	}
	ks, isStr := k.(VStr)
	if isStr && ks.Lit != nil {
		for i := len(mv.Entries) - 1; i >= 0; i-- {
			e := mv.Entries[i]
			if el, ok := e.K.(VStr); ok && el.Lit != nil && *el.Lit == *ks.Lit {
				return wrap(e.V, True)
			}
		}
		return wrap(zeroValue(vt), False)
	}
	if ki, ok := k.(VInt); ok && ki.T.IsConst() {
		for i := len(mv.Entries) - 1; i >= 0; i-- {
			e := mv.Entries[i]
			if ei, ok := e.K.(VInt); ok && ei.T.IsConst() && ei.T.Val == ki.T.Val {
				return wrap(e.V, True)
			}
		}
		return wrap(zeroValue(vt), False)
	}
	oos("map lookup with symbolic key")
	return nil
}

// lookupFork: map lookup with a symbolic string key in a concretely known map: one path per entry
// (key equal to that entry's key) plus the not-found path. Returns nil when not applicable.
func (ex *Exec) lookupFork(st *State, fr *Frame, x *ssa.Lookup) []Outcome {
	m := ex.operand(st, fr, x.X)
	mr, ok := m.(VMapRef)
	if !ok || mr.Obj == 0 {
		return nil
	}
	ks, ok := ex.operand(st, fr, x.Index).(VStr)
	if !ok || ks.Lit != nil {
		return nil
	}
	mv := st.heap[mr.Obj].Val.(VMapVal)
	if mv.Symbolic {
		return nil
	}
	vt := x.X.Type().Underlying().(*types.Map).Elem()
	wrap := func(v Value, found *Term) Value {
		if x.CommaOk {
			return VTuple{[]Value{v, VBool{found}}}
		}
		return v
	}
	var outs []Outcome
	none := True
	seen := map[string]bool{}
	for i := len(mv.Entries) - 1; i >= 0; i-- {
		e := mv.Entries[i]
		el, ok := e.K.(VStr)
		if !ok || el.Lit == nil {
			oos("map with non-literal string key")
		}
		if seen[*el.Lit] {
			continue
		}
		seen[*el.Lit] = true
		c := Eq(strID(ks), strID(el))
		none = And(none, Not(c))
		s2 := st.clone()
		s2.assume(c)
		ex.checkPaths()
		outs = append(outs, Outcome{s2, []Value{wrap(e.V, True)}})
	}
	s2 := st.clone()
	s2.assume(none)
	outs = append(outs, Outcome{s2, []Value{wrap(zeroValue(vt), False)}})
	return outs
}

// ---------- loops ----------

type loopInfo struct {
	header  *ssa.BasicBlock
	blocks  map[*ssa.BasicBlock]bool
	ordinal int // 1-based, in block order of headers
	rangeIx *ssa.Phi
	rangeLn ssa.Value
}

func (ex *Exec) loopEntry(st *State, fr *Frame, li *loopInfo, phis []*ssa.Phi) bool {
	var lc *LoopContract
	if fr.fc != nil {
		lc = fr.fc.Loops[li.ordinal]
	}
	env := ex.loopEnv(st, fr, li, phis)
	// 1. invariants hold on entry
	invs := ex.loopInvariants(fr, li, lc)
	for i, inv := range invs {
		g := ex.evalBoolClause(st, env, inv)
		ex.emit(st, fr, fmt.Sprintf("inv/loop%d/entry", li.ordinal), fmt.Sprint(i+1), inv.Text, g, inv.Props, li.header.Instrs[0].Pos())
	}
	// 2. discover the write set of the loop body
	maxObj := objCtr
	writes := map[string]writeRec{}
	phiIn := map[*ssa.Phi]bool{}
	phiOld := map[*ssa.Phi]bool{}
	entryVals := map[*ssa.Phi]Value{}
	for _, p := range phis {
		entryVals[p] = fr.regs[p]
	}
	var hst *State
	var hfr *Frame
	for round := 0; round < 4; round++ {
		hst = st.clone()
		hfr = fr.clone()
		ex.havocLoop(hst, hfr, li, phis, writes, phiIn, phiOld, entryVals)
		henv := ex.loopEnv(hst, hfr, li, phis)
		for _, inv := range invs {
			ex.assumeClause(hst, henv, inv)
		}
		d := &discovery{loop: li, fr: hfr, writes: map[string]writeRec{}, maxObj: maxObj, phiIn: map[*ssa.Phi]bool{}, phiOld: map[*ssa.Phi]bool{}}
		dst := hst.clone()
		dfr := hfr.clone()
		dfr.cuts[li.header] = &cutInfo{ordinal: li.ordinal}
		d.fr = dfr
		ex.disc = append(ex.disc, d)
		savedPaths := ex.paths
		func() {
			defer func() {
				ex.disc = ex.disc[:len(ex.disc)-1]
			}()
			ex.execFrom(dst, dfr, li.header, len(phis))
		}()
		ex.paths = savedPaths
		if d.aborted != "" {
			oos("loop %d of %s: %s", li.ordinal, fr.fn, d.aborted)
		}
		grew := false
		for k, w := range d.writes {
			if _, ok := writes[k]; !ok {
				writes[k] = w
				grew = true
			}
		}
		for p := range d.phiIn {
			if !phiIn[p] {
				phiIn[p] = true
				grew = true
			}
		}
		for p := range d.phiOld {
			if !phiOld[p] {
				phiOld[p] = true
				grew = true
			}
		}
		// propagate to enclosing discoveries
		for _, outer := range ex.disc {
			for k, w := range d.writes {
				if w.obj <= outer.maxObj {
					outer.writes[k] = w
				}
			}
		}
		if !grew {
			break
		}
	}
	// 3. continue from the havocked state with invariants assumed
	*st = *hst
	*fr = *hfr
	cut := &cutInfo{ordinal: li.ordinal, maxObjID: maxObj}
	henv := ex.loopEnv(st, fr, li, phis)
	if v := ex.loopVariant(fr, li, lc); v != nil {
		cut.variant = ex.evalIntClause(st, henv, v)
	}
	fr.cuts[li.header] = cut
	return true
}

func (ex *Exec) loopInvariants(fr *Frame, li *loopInfo, lc *LoopContract) []*Clause {
	var invs []*Clause
	if li.rangeIx != nil {
		invs = append(invs, ex.L.Contracts.autoRangeInv(li)...)
	}
	if lc != nil {
		invs = append(invs, lc.Invariants...)
	}
	return invs
}

func (ex *Exec) loopVariant(fr *Frame, li *loopInfo, lc *LoopContract) *Clause {
	if lc != nil && lc.Decreases != nil {
		return lc.Decreases
	}
	if li.rangeIx != nil {
		return ex.L.Contracts.autoRangeVariant(li)
	}
	return nil
}

func (ex *Exec) loopEnv(st *State, fr *Frame, li *loopInfo, phis []*ssa.Phi) *Env {
	env := ex.frameEnv(st, fr)
	for _, p := range phis {
		if p.Comment != "" {
			env.bind(p.Comment, fr.regs[p], p.Type())
		}
	}
	// positional aliases: $int1, $uint16_1 ... (type + ordinal among header phis of that type)
	cnt := map[string]int{}
	for _, p := range phis {
		ts := strings.NewReplacer(".", "_", "*", "p", "[", "", "]", "s", " ", "").Replace(typeStr(p.Type()))
		cnt[ts]++
		env.bind(fmt.Sprintf("phi_%s_%d", ts, cnt[ts]), fr.regs[p], p.Type())
	}
	// a loop-carried local that was renamed in the source: when exactly one identifier of this loop's clauses cannot
	// be resolved and exactly one loop-carried variable is not mentioned by them, the clause means that variable
	// (sound: whatever the invariant then says is still proved inductive before it is used)
	if fr.fc != nil {
		if lc := fr.fc.Loops[li.ordinal]; lc != nil {
			used := map[string]bool{}
			for _, c := range lc.Invariants {
				collectIdents(c.Expr, used)
			}
			if lc.Decreases != nil {
				collectIdents(lc.Decreases.Expr, used)
			}
			var unknown []string
			for name := range used {
				if _, ok := env.vars[name]; ok || isSpecOrBuiltinName(ex.L, name) {
					continue
				}
				if env.pkg != nil && env.pkg.Scope().Lookup(name) != nil {
					continue
				}
				if types.Universe.Lookup(name) != nil {
					continue
				}
				unknown = append(unknown, name)
			}
			var spare []*ssa.Phi
			for _, p := range phis {
				if p.Comment != "" && !used[p.Comment] {
					spare = append(spare, p)
				}
			}
			if len(unknown) == 1 && len(spare) == 1 {
				env.bind(unknown[0], fr.regs[spare[0]], spare[0].Type())
				if ex.renamed != nil {
					ex.renamed[unknown[0]+" -> "+spare[0].Comment] = true
				}
			}
		}
	}
	if li.rangeIx != nil {
		ix := fr.regs[li.rangeIx].(VInt).T
		env.bind("__k", VInt{Add(ix, Const(64, 1))}, types.Typ[types.Int])
		env.bind("__rangeindex", VInt{ix}, types.Typ[types.Int])
		if lv, ok := fr.regs[li.rangeLn]; ok {
			env.bind("__rangelen", lv, types.Typ[types.Int])
		}
	}
	return env
}

func (ex *Exec) havocLoop(st *State, fr *Frame, li *loopInfo, phis []*ssa.Phi, writes map[string]writeRec, phiIn, phiOld map[*ssa.Phi]bool, entryVals map[*ssa.Phi]Value) {
	for _, p := range phis {
		name := p.Comment
		if name == "" {
			name = p.Name()
		}
		name = fmt.Sprintf("%s@loop%d", name, li.ordinal)
		nv := st.symValue(p.Type(), freshName(name), 3, false)
		// inherit freshness / input flags of the entry value's backing objects
		if sl, ok := nv.(VSlice); ok {
			ev, _ := entryVals[p].(VSlice)
			fresh := true
			input := phiIn[p]
			if ev.Obj != 0 {
				if eo := st.heap[ev.Obj]; eo != nil {
					fresh = eo.Fresh
					input = input || eo.Input
				}
			}
			if phiOld[p] {
				fresh = false
			}
			o := *st.heap[sl.Obj]
			o.Fresh = fresh
			o.Input = input
			st.heap[sl.Obj] = &o
		}
		fr.regs[p] = nv
	}
	keys := make([]string, 0, len(writes))
	for k := range writes {
		keys = append(keys, k)
	}
	sort.Strings(keys)
	for _, k := range keys {
		w := writes[k]
		ex.havocLoc(st, w, fmt.Sprintf("loop%d", li.ordinal))
	}
}

func freshName(hint string) string {
	t := Fresh(hint+"$", BV(1))
	return strings.TrimSuffix(t.Name, "$") + strings.TrimPrefix(t.Name[strings.LastIndex(t.Name, "$"):], "$")
}

// havocLoc replaces the content of a location by unconstrained symbolic content of the same type.
func (ex *Exec) havocLoc(st *State, w writeRec, why string) {
	o := st.heap[w.obj]
	if o == nil {
		return
	}
	c := *o
	switch o.Kind {
	case okBytes:
		c.Mem = bmBaseOf(Fresh(fmt.Sprintf("havoc_%s_obj%d", why, w.obj), ArrSort))
	case okSeq:
		seqCtr++
		c.Seq = &SeqMem{id: seqCtr, elemT: o.Seq.elemT, zero: false, name: freshName(fmt.Sprintf("havoc_%s_%s", why, o.Seq.name))}
	case okCell:
		if w.typ == nil {
			// whole sub-value at path: need its type; derive from current value shape
			old := getPath(o.Val, w.path)
			c.Val = setPath(o.Val, w.path, ex.havocLike(st, old, fmt.Sprintf("havoc_%s_obj%d%s", why, w.obj, pathKey(w.path))))
		} else {
			nv := st.symValue(w.typ, freshName(fmt.Sprintf("havoc_%s_%s%s", why, o.Tag, pathKey(w.path))), 2, false)
			c.Val = setPath(o.Val, w.path, nv)
		}
	}
	st.heap[w.obj] = &c
}

// havocLike builds an unconstrained value with the same shape as old (used when the static type is unknown).
func (ex *Exec) havocLike(st *State, old Value, name string) Value {
	switch x := old.(type) {
	case VInt:
		return VInt{Fresh(name, x.T.S)}
	case VBool:
		return VBool{Fresh(name, BoolSort)}
	case VStruct:
		f := make([]Value, len(x.F))
		for i := range f {
			f[i] = ex.havocLike(st, x.F[i], fmt.Sprintf("%s.%d", name, i))
		}
		return VStruct{f}
	case VArray:
		e := make([]Value, len(x.E))
		for i := range e {
			e[i] = ex.havocLike(st, x.E[i], fmt.Sprintf("%s[%d]", name, i))
		}
		return VArray{e}
	case VStr:
		return VStr{ID: Fresh(name+"#str", BV(64))}
	}
	oos("cannot havoc value of shape %T without static type", old)
	return nil
}

func (ex *Exec) loopBackEdge(st *State, fr *Frame, li *loopInfo, cut *cutInfo, phis []*ssa.Phi) {
	var lc *LoopContract
	if fr.fc != nil {
		lc = fr.fc.Loops[li.ordinal]
	}
	env := ex.loopEnv(st, fr, li, phis)
	for i, inv := range ex.loopInvariants(fr, li, lc) {
		g := ex.evalBoolClause(st, env, inv)
		ex.emit(st, fr, fmt.Sprintf("inv/loop%d/preserve", li.ordinal), fmt.Sprint(i+1), inv.Text, g, inv.Props, li.header.Instrs[0].Pos())
	}
	// ownership is an implicit loop invariant: nothing stored during this iteration aliases the input
	if ex.topFC != nil && len(ex.topFC.Own) > 0 && fr.depth == 0 {
		ex.ownCheck(st, fr, nil, fmt.Sprintf("/loop%d", li.ordinal))
	}
	v := ex.loopVariant(fr, li, lc)
	if lc != nil && lc.Diverges {
		return
	}
	if v == nil {
		ex.emit(st, fr, fmt.Sprintf("term/loop%d", li.ordinal), "", "loop has a decreases clause", False, nil, li.header.Instrs[0].Pos())
		return
	}
	nv := ex.evalIntClause(st, env, v)
	g := And(SLe(Const(64, 0), cut.variant), SLt(nv, cut.variant))
	ex.emit(st, fr, fmt.Sprintf("term/loop%d", li.ordinal), "", "decreases "+v.Text, g, v.Props, li.header.Instrs[0].Pos())
}

// collectIdents gathers the plain identifiers of a contract expression.
func collectIdents(e ast.Expr, out map[string]bool) {
	ast.Inspect(e, func(n ast.Node) bool {
		switch x := n.(type) {
		case *ast.SelectorExpr:
			collectIdents(x.X, out)
			return false
		case *ast.CallExpr:
			if _, ok := x.Fun.(*ast.Ident); ok {
				for _, a := range x.Args {
					collectIdents(a, out)
				}
				return false
			}
		case *ast.Ident:
			out[x.Name] = true
		}
		return true
	})
}

func isSpecOrBuiltinName(L *Loaded, name string) bool {
	if _, ok := L.Contracts.Specs[name]; ok {
		return true
	}
	switch name {
	case "__k", "__rangeindex", "__rangelen", "true", "false", "nil":
		return true
	}
	return false
}
