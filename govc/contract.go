package main

// Contract files: //@ comment blocks in <pkg>/zz_contracts_verif.go (build tag verif).
// Parser, database and the expression evaluator (Go expression syntax + spec built-ins).

import (
	"fmt"
	"go/ast"
	"go/constant"
	"go/parser"
	"go/token"
	"go/types"
	"os"
	"path/filepath"
	"regexp"
	"sort"
	"strconv"
	"strings"

	"golang.org/x/tools/go/ssa"
)

type Clause struct {
	Text  string
	Expr  ast.Expr
	Props []string
	Line  string // file:line
	Label string // stable obligation label (inherited interface clauses); empty: positional
}

type LoopContract struct {
	Invariants []*Clause
	Decreases  *Clause
	Diverges   bool
}

type FuncContract struct {
	Ref          string
	Pkg          string
	Fn           *ssa.Function
	Params       []string
	Results      []string
	Props        []string
	Requires     []*Clause
	Ensures      []*Clause
	Modifies     []*Clause
	Loops        map[int]*LoopContract
	Trusted      bool // contract assumed, body not verified
	InlineOnly   bool // callers inline the body; contract only used when verifying the function itself
	NoSafety     bool
	AllocBound   *Clause
	Own          []string // "noalias result input" style ownership clauses: pairs
	Pure         bool
	Line         string
	Ghost        []string
	Appends      []*AppendClause
	AllowGlobals bool      // frame: package-level state (the atomic id counter) may change
	InlineCalls  bool      // calls to library functions are executed, not abstracted by their contracts (lemma functions)
	ThoroughOnly bool      // checked in the thorough tier only (larger instance lemmas)
	Bounded      string    // stated bound of an instance lemma (reported in the evidence, never counted as proved for all shapes)
	Recurse      int       // lemma functions: a function already on the inline stack may be inlined again this many times (nested containers)
	Unroll       int       // lemma functions: loops of inlined callees are unrolled up to this many header visits, with an unwinding obligation
	ModReach     bool      // frame: everything reachable from the receiver may change (decoders fill owned buffers)
	Auto         bool      // synthesised for an implementer of a contracted interface
	RefinePre    []*Clause // interface preconditions that must imply this contract's own preconditions
	Inherited    []string  // interface methods whose clauses were inherited
}

type AppendClause struct {
	Buf, N *Clause
}

type SpecFunc struct {
	Name   string
	Pkg    string
	Params []string
	PTypes []types.Type
	Body   *Clause
	Line   string
}

type IfaceContract struct {
	Name    string // pkg.Iface
	Methods map[string]*FuncContract
}

type PropDecl struct {
	ID   string
	Min  int
	Line string
}

type ContractDB struct {
	L      *Loaded
	Funcs  map[*ssa.Function]*FuncContract
	ByRef  map[string]*FuncContract // pkg.ref
	Specs  map[string][]*SpecFunc   // name -> overloads
	Ifaces map[string]*IfaceContract
	Props  map[string]*PropDecl
	Errors []string // contract drift / parse errors
	Order  []*FuncContract
	Exempt map[string]bool // "pkg.Iface|pkg.Type": assumed never used through that interface
}

func (db *ContractDB) lookup(fn *ssa.Function) *FuncContract {
	if db == nil {
		return nil
	}
	return db.Funcs[fn]
}

var reProps = regexp.MustCompile(`\[((?:C\d+\s*)+)\]\s*$`)
var reClauseProps = regexp.MustCompile(`^(\w+)\[((?:C\d+\s*,?\s*)+)\]\s*(.*)$`)

func loadContracts(L *Loaded) *ContractDB {
	db := &ContractDB{L: L, Funcs: map[*ssa.Function]*FuncContract{}, ByRef: map[string]*FuncContract{}, Specs: map[string][]*SpecFunc{},
		Ifaces: map[string]*IfaceContract{}, Props: map[string]*PropDecl{}, Exempt: map[string]bool{}}
	var names []string
	for name := range L.SSAPkgs {
		names = append(names, name)
	}
	sort.Strings(names)
	for _, name := range names {
		sp := L.SSAPkgs[name]
		rel := strings.TrimPrefix(strings.TrimPrefix(sp.Pkg.Path(), repoModule), "/")
		files, _ := filepath.Glob(filepath.Join(L.RepoDir, rel, "zz_contracts*_verif.go"))
		sort.Strings(files)
		for _, f := range files {
			db.parseFile(name, f)
		}
	}
	// a function is checked under every property one of its own clauses is tagged with
	for _, fc := range db.Order {
		for _, cs := range [][]*Clause{fc.Ensures, fc.Requires} {
			for _, c := range cs {
				for _, p := range c.Props {
					if !hasProp(fc.Props, p) {
						fc.Props = append(fc.Props, p)
					}
				}
			}
		}
	}
	db.inheritIfaces()
	db.autoCtors()
	return db
}

// autoCtors: every New*/new* function of the library that returns a pointer to a kind with a wf spec and has no
// contract of its own gets "ensures r != nil && wf(r)" (constructor establishes the representation invariant).
// Constructors that need preconditions on their arguments carry explicit contracts instead.
func (db *ContractDB) autoCtors() {
	L := db.L
	var pnames []string
	for n := range L.SSAPkgs {
		pnames = append(pnames, n)
	}
	sort.Strings(pnames)
	e1, _ := parser.ParseExpr("r != nil && wf(r)")
	for _, pn := range pnames {
		sp := L.SSAPkgs[pn]
		var fnames []string
		for n, m := range sp.Members {
			if _, ok := m.(*ssa.Function); ok {
				fnames = append(fnames, n)
			}
		}
		sort.Strings(fnames)
		for _, n := range fnames {
			if !strings.HasPrefix(n, "New") && n != "newUint16Message" && n != "newUint32Message" && n != "newCTLabel" {
				continue
			}
			fn := sp.Members[n].(*ssa.Function)
			if fn.Blocks == nil || db.Funcs[fn] != nil || fn.TypeParams().Len() > 0 {
				continue
			}
			res := fn.Signature.Results()
			if res.Len() < 1 || res.Len() > 2 {
				continue
			}
			pt, ok := res.At(0).Type().Underlying().(*types.Pointer)
			if !ok {
				continue
			}
			has := false
			for _, sf := range db.Specs["wf"] {
				if types.Identical(sf.PTypes[0], res.At(0).Type()) || types.Identical(sf.PTypes[0], pt) {
					has = true
				}
			}
			if !has {
				continue
			}
			fc := &FuncContract{Ref: n, Pkg: pn, Fn: fn, Loops: map[int]*LoopContract{}, Line: "auto constructor contract", Auto: true, Props: []string{"C01", "C02", "C03", "C06"}, InlineOnly: true, AllowGlobals: true}
			for _, p := range fn.Params {
				fc.Params = append(fc.Params, p.Name())
			}
			fc.Results = []string{"r"}
			text := "r != nil && wf(r)"
			ex1 := e1
			if res.Len() == 2 {
				fc.Results = []string{"r", "err"}
				text = "err == nil ==> r != nil && wf(r)"
				ex1, _ = parseSpecExpr(text)
			}
			fc.Ensures = []*Clause{{Text: text, Expr: ex1, Line: "auto", Label: "wf-ctor"}}
			db.Funcs[fn] = fc
			db.ByRef[pn+"."+n] = fc
			db.Order = append(db.Order, fc)
		}
	}
}

// inheritIfaces: behavioural subtyping. Every method of a repo type that implements a contracted interface
// inherits the interface method's clauses (self = receiver): ensures are added as obligations of the
// implementer, requires become its preconditions unless it declares weaker ones of its own (then
// "interface requires ==> own requires" is an obligation). Implementers without a contract get one synthesised,
// so a call on an unknown dynamic type is sound for every dynamic type the library can produce.
func (db *ContractDB) ifaceType(iname string) *types.Interface {
	dot := strings.Index(iname, ".")
	if dot < 0 {
		return nil
	}
	ipkg := db.L.SSAPkgs[iname[:dot]]
	if ipkg == nil {
		return nil
	}
	obj := ipkg.Pkg.Scope().Lookup(iname[dot+1:])
	if obj == nil {
		return nil
	}
	it, _ := obj.Type().Underlying().(*types.Interface)
	return it
}

func hasClauseText(cs []*Clause, text string) bool {
	for _, c := range cs {
		if c.Text == text {
			return true
		}
	}
	return false
}

// mergeEmbeddedIfaces: an interface contract includes the clauses of the contracted interfaces it embeds
// (openflow13.Action embeds util.Message), so a call through the wider interface sees both.
func (db *ContractDB) mergeEmbeddedIfaces() {
	var inames []string
	for n := range db.Ifaces {
		inames = append(inames, n)
	}
	sort.Strings(inames)
	for _, in := range inames {
		ic := db.Ifaces[in]
		dot := strings.Index(in, ".")
		ipkg := db.L.SSAPkgs[in[:dot]]
		if ipkg == nil {
			continue
		}
		obj := ipkg.Pkg.Scope().Lookup(in[dot+1:])
		if obj == nil {
			continue
		}
		for _, jn := range inames {
			if jn == in || !ifaceEmbeds(obj.Type(), jn) {
				continue
			}
			jc := db.Ifaces[jn]
			for mn, jm := range jc.Methods {
				im := ic.Methods[mn]
				if im == nil {
					ic.Methods[mn] = jm
					continue
				}
				merged := *im
				merged.Requires = nil
				for _, r := range jm.Requires {
					merged.Requires = append(merged.Requires, r)
				}
				for _, r := range im.Requires {
					if !hasClauseText(merged.Requires, r.Text) {
						merged.Requires = append(merged.Requires, r)
					}
				}
				merged.Ensures = nil
				for _, r := range jm.Ensures {
					c := *r
					if c.Props == nil {
						c.Props = jm.Props
					}
					merged.Ensures = append(merged.Ensures, &c)
				}
				for _, r := range im.Ensures {
					if !hasClauseText(merged.Ensures, r.Text) {
						c := *r
						if c.Props == nil {
							c.Props = im.Props
						}
						merged.Ensures = append(merged.Ensures, &c)
					}
				}
				for _, pp := range jm.Props {
					if !hasProp(merged.Props, pp) {
						merged.Props = append(merged.Props, pp)
					}
				}
				ic.Methods[mn] = &merged
			}
		}
	}
}

func (db *ContractDB) inheritIfaces() {
	L := db.L
	db.mergeEmbeddedIfaces()
	var inames []string
	for n := range db.Ifaces {
		inames = append(inames, n)
	}
	sort.Strings(inames)
	for _, iname := range inames {
		ic := db.Ifaces[iname]
		dot := strings.Index(iname, ".")
		ipkg := L.SSAPkgs[iname[:dot]]
		if ipkg == nil {
			db.errf(iname, "interface contract for unknown package")
			continue
		}
		obj := ipkg.Pkg.Scope().Lookup(iname[dot+1:])
		if obj == nil {
			db.errf(iname, "contract drift: no interface %s", iname)
			continue
		}
		it, ok := obj.Type().Underlying().(*types.Interface)
		if !ok {
			db.errf(iname, "contract drift: %s is not an interface", iname)
			continue
		}
		var pnames []string
		for n := range L.SSAPkgs {
			pnames = append(pnames, n)
		}
		sort.Strings(pnames)
		for _, pn := range pnames {
			sp := L.SSAPkgs[pn]
			scope := sp.Pkg.Scope()
			names := scope.Names()
			for _, tn := range names {
				tobj, ok := scope.Lookup(tn).(*types.TypeName)
				if !ok || tobj.IsAlias() {
					continue
				}
				if _, isI := tobj.Type().Underlying().(*types.Interface); isI {
					continue
				}
				pt := types.NewPointer(tobj.Type())
				if !types.Implements(pt, it) || db.Exempt[iname+"|"+pn+"."+tn] {
					continue
				}
				var mnames []string
				for m := range ic.Methods {
					mnames = append(mnames, m)
				}
				sort.Strings(mnames)
				for _, mn := range mnames {
					mc := ic.Methods[mn]
					sel := L.Prog.MethodSets.MethodSet(pt).Lookup(sp.Pkg, mn)
					if sel == nil {
						continue
					}
					fn := L.Prog.MethodValue(sel)
					if fn == nil || fn.Blocks == nil {
						continue
					}
					fc := db.Funcs[fn]
					if fc == nil {
						fc = &FuncContract{Ref: "(*" + tn + ")." + mn, Pkg: pn, Fn: fn, Loops: map[int]*LoopContract{}, Line: mc.Line + " (inherited)", Auto: true, Props: mc.Props}
						for i, p := range fn.Params {
							nm := p.Name()
							if i == 0 {
								nm = "self"
							} else if i-1 < len(mc.Params) {
								nm = mc.Params[i-1]
							}
							fc.Params = append(fc.Params, nm)
						}
						fc.Results = append([]string{}, mc.Results...)
						db.Funcs[fn] = fc
						db.ByRef[pn+"."+fc.Ref] = fc
						db.Order = append(db.Order, fc)
					} else {
						if len(fc.Results) != len(mc.Results) {
							db.errf(fc.Line, "contract of %s must bind the interface's result names %v", fc.Ref, mc.Results)
							continue
						}
						for i := range mc.Results {
							if fc.Results[i] != mc.Results[i] {
								db.errf(fc.Line, "contract of %s must bind the interface's result names %v", fc.Ref, mc.Results)
							}
						}
						for _, p := range mc.Props {
							if !hasProp(fc.Props, p) {
								fc.Props = append(fc.Props, p)
							}
						}
					}
					label := func(kind string, j int) string { return fmt.Sprintf("%s.%s.%s%d", iname, mn, kind, j+1) }
					ownReq := false
					for _, r := range fc.Requires {
						if r.Label == "" {
							ownReq = true
						}
					}
					if !ownReq {
						for j, r := range mc.Requires {
							if hasClauseText(fc.Requires, r.Text) {
								continue
							}
							c := *r
							c.Label = label("pre", j)
							fc.Requires = append(fc.Requires, &c)
						}
					} else {
						for _, r := range mc.Requires {
							if !hasClauseText(fc.RefinePre, r.Text) {
								fc.RefinePre = append(fc.RefinePre, r)
							}
						}
					}
					for j, en := range mc.Ensures {
						if hasClauseText(fc.Ensures, en.Text) {
							continue
						}
						c := *en
						c.Label = label("post", j)
						if c.Props == nil {
							c.Props = mc.Props
						}
						fc.Ensures = append(fc.Ensures, &c)
					}
					fc.Inherited = append(fc.Inherited, iname+"."+mn)
				}
			}
		}
	}
}

func (db *ContractDB) errf(line, format string, a ...interface{}) {
	db.Errors = append(db.Errors, line+": "+fmt.Sprintf(format, a...))
}

func (db *ContractDB) parseFile(pkg, file string) {
	data, err := os.ReadFile(file)
	if err != nil {
		db.errf(file, "%v", err)
		return
	}
	lines := strings.Split(string(data), "\n")
	var curF *FuncContract
	var curLoop *LoopContract
	var curI *IfaceContract
	alsoMode := false
	for i, raw := range lines {
		ln := fmt.Sprintf("%s:%d", shortFile(file), i+1)
		t := strings.TrimSpace(raw)
		if !strings.HasPrefix(t, "//@") {
			if t == "" || !strings.HasPrefix(t, "//") {
				// blank line or code ends a block
				if t == "" {
					curF, curLoop = nil, nil
					curI = nil
					alsoMode = false
				}
			}
			continue
		}
		t = strings.TrimSpace(strings.TrimPrefix(t, "//@"))
		if t == "" {
			continue
		}
		// strip trailing comment " // ..."
		if j := strings.Index(t, " // "); j >= 0 {
			t = strings.TrimSpace(t[:j])
		}
		kw := t
		rest := ""
		if j := strings.IndexAny(t, " \t"); j >= 0 {
			kw, rest = t[:j], strings.TrimSpace(t[j+1:])
		}
		var cprops []string
		if m := reClauseProps.FindStringSubmatch(t); m != nil {
			kw = m[1]
			cprops = strings.FieldsFunc(m[2], func(r rune) bool { return r == ' ' || r == ',' })
			rest = m[3]
		}
		mkClause := func(text string) *Clause {
			// optional stable label: "@name: expr" (the obligation is then post:name instead of post:<ordinal>)
			label := ""
			if strings.HasPrefix(text, "@") {
				if j := strings.Index(text, ": "); j > 0 {
					label, text = text[1:j], strings.TrimSpace(text[j+2:])
				}
			}
			if label != "" {
				e, err := parseSpecExpr(text)
				if err != nil {
					db.errf(ln, "cannot parse %q: %v", text, err)
					return nil
				}
				return &Clause{Text: text, Expr: e, Props: cprops, Line: ln, Label: label}
			}
			e, err := parseSpecExpr(text)
			if err != nil {
				db.errf(ln, "cannot parse %q: %v", text, err)
				return nil
			}
			return &Clause{Text: text, Expr: e, Props: cprops, Line: ln}
		}
		if kw == "also" {
			// also <func header>: further clauses (ensures, loop invariants) for a function that already has a
			// contract block (generated layout contracts); parameter/result names must be the block's
			fc := db.parseFuncHeader(pkg, rest, ln, false)
			curLoop, curI = nil, nil
			curF = nil
			if fc == nil {
				continue
			}
			fn, err := db.L.findFunc(pkg, fc.Ref)
			if err != nil {
				db.errf(ln, "contract drift: %v", err)
				continue
			}
			old := db.Funcs[fn]
			if old == nil {
				db.errf(ln, "also: %s has no contract block yet (files are read in name order)", fc.Ref)
				continue
			}
			if strings.Join(old.Params, ",") != strings.Join(fc.Params, ",") || (len(fc.Results) > 0 && strings.Join(old.Results, ",") != strings.Join(fc.Results, ",")) {
				db.errf(ln, "also: %s must bind the names of the block at %s: (%s) (%s)", fc.Ref, old.Line, strings.Join(old.Params, ", "), strings.Join(old.Results, ", "))
				continue
			}
			for _, p := range fc.Props {
				if !hasProp(old.Props, p) {
					old.Props = append(old.Props, p)
				}
			}
			curF = old
			alsoMode = true
			continue
		}
		isDecoder := kw == "decoder" || kw == "elemdecoder"
		isElem := kw == "elemdecoder"
		if isDecoder {
			kw = "func"
		}
		switch kw {
		case "func", "method":
			fc := db.parseFuncHeader(pkg, rest, ln, kw == "method")
			if fc != nil && isDecoder && len(fc.Params) > 0 {
				// decoder macro: total on any input, modifies only its receiver, result owns its memory
				if c := mkClause("*" + fc.Params[0]); c != nil {
					fc.Modifies = append(fc.Modifies, c)
				}
				fc.Own = append(fc.Own, "noalias")
				fc.ModReach = true
				if len(fc.Params) > 1 {
					// memory proportional to the input: no single allocation exceeds max(4096, len(input))
					fc.AllocBound = mkClause("max(4096, len(" + fc.Params[1] + "))")
				}
				if isElem && len(fc.Params) > 1 && len(fc.Results) == 1 {
					// element decoder: on success the value can be sized, occupies at least one byte and lies
					// within the input (what list-decoding callers need for progress and bounds)
					r, d, e := fc.Params[0], fc.Params[1], fc.Results[0]
					// an element that carries the 4-byte type/length header of the package's Action or Instruction
					// interface occupies at least that header
					minSz := "1"
					if fn, err := db.L.findFunc(pkg, fc.Ref); err == nil && fn.Signature.Recv() != nil {
						for _, in := range []string{"Action", "Instruction"} {
							if o := fn.Pkg.Pkg.Scope().Lookup(in); o != nil {
								if it, ok := o.Type().Underlying().(*types.Interface); ok && types.Implements(fn.Signature.Recv().Type(), it) {
									minSz = "4"
								}
							}
						}
					}
					if c := mkClause(e + " == nil ==> wfl(" + r + ") && " + minSz + " <= size(" + r + ") && size(" + r + ") <= len(" + d + ") && size(" + r + ") <= 65535"); c != nil {
						fc.Ensures = append(fc.Ensures, c)
					}
				}
			}
			curLoop = nil
			curF = fc
			if fc == nil {
				continue
			}
			if kw == "method" {
				if curI == nil {
					db.errf(ln, "method outside iface block")
					curF = nil
					continue
				}
				curI.Methods[fc.Ref] = fc
			} else {
				curI = nil
				fn, err := db.L.findFunc(pkg, fc.Ref)
				if err != nil {
					db.errf(ln, "contract drift: %v", err)
					curF = nil
					continue
				}
				fc.Fn = fn
				np := len(fn.Params)
				if len(fc.Params) != np {
					db.errf(ln, "contract drift: %s has %d parameters (incl. receiver), contract binds %d", fc.Ref, np, len(fc.Params))
					curF = nil
					continue
				}
				nr := fn.Signature.Results().Len()
				if len(fc.Results) != nr && len(fc.Results) != 0 {
					db.errf(ln, "contract drift: %s has %d results, contract binds %d", fc.Ref, nr, len(fc.Results))
					curF = nil
					continue
				}
				if old, dup := db.Funcs[fn]; dup {
					db.errf(ln, "duplicate contract for %s (first at %s)", fc.Ref, old.Line)
				}
				db.Funcs[fn] = fc
				db.ByRef[pkg+"."+fc.Ref] = fc
				db.Order = append(db.Order, fc)
			}
		case "iface":
			curF, curLoop = nil, nil
			name := rest
			if !strings.Contains(name, ".") {
				name = pkg + "." + name
			}
			curI = &IfaceContract{Name: name, Methods: map[string]*FuncContract{}}
			db.Ifaces[name] = curI
		case "spec":
			curF, curLoop, curI = nil, nil, nil
			db.parseSpec(pkg, rest, ln)
		case "exempt":
			// exempt <Iface> <Type>: the type implements the interface syntactically but is never used through it
			f := strings.Fields(rest)
			if len(f) != 2 {
				db.errf(ln, "exempt <Iface> <Type>")
				continue
			}
			in := f[0]
			if !strings.Contains(in, ".") {
				in = pkg + "." + in
			}
			db.Exempt[in+"|"+pkg+"."+f[1]] = true
		case "property":
			f := strings.Fields(rest)
			if len(f) >= 3 && f[1] == "min-obligations" {
				n, _ := strconv.Atoi(f[2])
				db.Props[f[0]] = &PropDecl{ID: f[0], Min: n, Line: ln}
			} else {
				db.errf(ln, "bad property line")
			}
		default:
			if curF == nil {
				db.errf(ln, "clause %q outside a func block", kw)
				continue
			}
			switch kw {
			case "requires":
				if c := mkClause(rest); c != nil {
					curF.Requires = append(curF.Requires, c)
				}
			case "ensures":
				if c := mkClause(rest); c != nil {
					curF.Ensures = append(curF.Ensures, c)
				}
			case "modifies":
				for _, part := range splitTop(rest, ',') {
					if c := mkClause(strings.TrimSpace(part)); c != nil {
						curF.Modifies = append(curF.Modifies, c)
					}
				}
			case "loop":
				n, err := strconv.Atoi(strings.TrimSuffix(strings.Fields(rest)[0], ":"))
				if err != nil {
					db.errf(ln, "bad loop ordinal")
					continue
				}
				if ex := curF.Loops[n]; ex != nil && alsoMode {
					curLoop = ex
				} else {
					curLoop = &LoopContract{}
					curF.Loops[n] = curLoop
				}
			case "invariant":
				if curLoop == nil {
					db.errf(ln, "invariant outside loop")
					continue
				}
				if c := mkClause(rest); c != nil {
					curLoop.Invariants = append(curLoop.Invariants, c)
				}
			case "decreases":
				if c := mkClause(rest); c != nil {
					if curLoop != nil {
						curLoop.Decreases = c
					} else {
						db.errf(ln, "decreases outside loop")
					}
				}
			case "diverges":
				if curLoop != nil {
					curLoop.Diverges = true
				}
			case "trusted":
				curF.Trusted = true
			case "thoroughonly":
				curF.ThoroughOnly = true
			case "bounded":
				// the lemma decides its statement only for the shape its body builds (list lengths, option counts ...)
				curF.Bounded = rest
			case "inline":
				curF.InlineOnly = true
			case "nosafety":
				curF.NoSafety = true
			case "allowglobals":
				curF.AllowGlobals = true
			case "inlinecalls":
				curF.InlineCalls = true
			case "modreach":
				curF.ModReach = true
			case "recurse":
				n, e := strconv.Atoi(strings.TrimSpace(rest))
				if e != nil || n < 1 {
					db.errf(ln, "recurse <positive count>")
					continue
				}
				curF.Recurse = n
			case "unroll":
				n, e := strconv.Atoi(strings.TrimSpace(rest))
				if e != nil || n < 1 {
					db.errf(ln, "unroll <positive count>")
					continue
				}
				curF.Unroll = n
			case "pure":
				curF.Pure = true
			case "allocbound":
				curF.AllocBound = mkClause(rest)
			case "own":
				curF.Own = append(curF.Own, rest)
			case "flag":
				curF.Ghost = append(curF.Ghost, strings.Fields(rest)...)
			case "appends":
				parts := splitTop(rest, ',')
				if len(parts) != 2 {
					db.errf(ln, "appends <buffer>, <n>")
					continue
				}
				b, n := mkClause(strings.TrimSpace(parts[0])), mkClause(strings.TrimSpace(parts[1]))
				if b != nil && n != nil {
					curF.Appends = append(curF.Appends, &AppendClause{b, n})
				}
			default:
				db.errf(ln, "unknown clause keyword %q", kw)
			}
		}
	}
}

var reFuncHdr = regexp.MustCompile(`^(.+?)\(([^()]*)\)\s*(?:\(([^()]*)\))?\s*(?:\[((?:C\d+\s*)+)\])?\s*$`)

func (db *ContractDB) parseFuncHeader(pkg, rest, ln string, method bool) *FuncContract {
	// ref may itself contain parentheses: (*T).M(h, data) (err) [C07]
	s := rest
	var props []string
	if m := reProps.FindStringSubmatch(s); m != nil {
		props = strings.Fields(m[1])
		s = strings.TrimSpace(s[:len(s)-len(m[0])])
	}
	ref := ""
	if strings.HasPrefix(s, "(") {
		end := strings.Index(s, ")")
		if end < 0 {
			db.errf(ln, "bad func header")
			return nil
		}
		j := strings.Index(s[end:], "(")
		if j < 0 {
			db.errf(ln, "bad func header")
			return nil
		}
		ref = strings.TrimSpace(s[:end+j])
		s = s[end+j:]
	} else {
		j := strings.Index(s, "(")
		if j < 0 {
			db.errf(ln, "bad func header")
			return nil
		}
		// generic instantiation refs contain [..] but no parens
		ref = strings.TrimSpace(s[:j])
		s = s[j:]
	}
	// s = "(a, b) (r)" or "(a, b)"
	groups := regexp.MustCompile(`\(([^()]*)\)`).FindAllStringSubmatch(s, -1)
	if len(groups) == 0 {
		db.errf(ln, "bad func header binders")
		return nil
	}
	split := func(x string) []string {
		var out []string
		for _, p := range strings.Split(x, ",") {
			p = strings.TrimSpace(p)
			if p != "" {
				out = append(out, p)
			}
		}
		return out
	}
	fc := &FuncContract{Ref: ref, Pkg: pkg, Params: split(groups[0][1]), Props: props, Loops: map[int]*LoopContract{}, Line: ln}
	if len(groups) > 1 {
		fc.Results = split(groups[1][1])
	}
	return fc
}

// spec size(h *HopByHopHeader) = expr
func (db *ContractDB) parseSpec(pkg, rest, ln string) {
	eq := strings.Index(rest, "=")
	// find first '=' at depth 0 that is not part of ==,<=,>=,!=
	depth := 0
	eq = -1
	for i := 0; i < len(rest); i++ {
		c := rest[i]
		if c == '(' || c == '[' {
			depth++
		} else if c == ')' || c == ']' {
			depth--
		} else if c == '=' && depth == 0 {
			if i+1 < len(rest) && rest[i+1] == '=' {
				i++
				continue
			}
			if i > 0 && strings.ContainsRune("<>!=", rune(rest[i-1])) {
				continue
			}
			eq = i
			break
		}
	}
	if eq < 0 {
		db.errf(ln, "spec without '='")
		return
	}
	head := strings.TrimSpace(rest[:eq])
	body := strings.TrimSpace(rest[eq+1:])
	lp := strings.Index(head, "(")
	rp := strings.LastIndex(head, ")")
	if lp < 0 || rp < lp {
		db.errf(ln, "bad spec header")
		return
	}
	sf := &SpecFunc{Name: strings.TrimSpace(head[:lp]), Pkg: pkg, Line: ln}
	for _, p := range splitTop(head[lp+1:rp], ',') {
		f := strings.Fields(strings.TrimSpace(p))
		if len(f) != 2 {
			db.errf(ln, "bad spec parameter %q", p)
			return
		}
		t, err := db.resolveType(pkg, f[1])
		if err != nil {
			db.errf(ln, "contract drift: %v", err)
			return
		}
		sf.Params = append(sf.Params, f[0])
		sf.PTypes = append(sf.PTypes, t)
	}
	e, err := parseSpecExpr(body)
	if err != nil {
		db.errf(ln, "cannot parse %q: %v", body, err)
		return
	}
	sf.Body = &Clause{Text: body, Expr: e, Line: ln}
	db.Specs[sf.Name] = append(db.Specs[sf.Name], sf)
}

func (db *ContractDB) resolveType(pkg, s string) (types.Type, error) {
	s = strings.TrimSpace(s)
	if strings.HasPrefix(s, "*") {
		t, err := db.resolveType(pkg, s[1:])
		if err != nil {
			return nil, err
		}
		return types.NewPointer(t), nil
	}
	if strings.HasPrefix(s, "[]") {
		t, err := db.resolveType(pkg, s[2:])
		if err != nil {
			return nil, err
		}
		return types.NewSlice(t), nil
	}
	if o := types.Universe.Lookup(s); o != nil {
		if tn, ok := o.(*types.TypeName); ok {
			return tn.Type(), nil
		}
	}
	p := pkg
	name := s
	if i := strings.Index(s, "."); i >= 0 {
		p, name = s[:i], s[i+1:]
	}
	sp := db.L.SSAPkgs[p]
	var scope *types.Scope
	if sp != nil {
		scope = sp.Pkg.Scope()
	} else {
		// imported non-repo package by name
		for _, pk := range db.L.Prog.AllPackages() {
			if pk.Pkg.Name() == p {
				scope = pk.Pkg.Scope()
				break
			}
		}
	}
	if scope == nil {
		return nil, fmt.Errorf("no package %s", p)
	}
	o := scope.Lookup(name)
	if o == nil {
		return nil, fmt.Errorf("no type %s.%s", p, name)
	}
	return o.Type(), nil
}

func splitTop(s string, sep byte) []string {
	var out []string
	depth := 0
	start := 0
	for i := 0; i < len(s); i++ {
		switch s[i] {
		case '(', '[', '{':
			depth++
		case ')', ']', '}':
			depth--
		default:
			if s[i] == sep && depth == 0 {
				out = append(out, s[start:i])
				start = i + 1
			}
		}
	}
	if strings.TrimSpace(s[start:]) != "" {
		out = append(out, s[start:])
	}
	return out
}

// parseSpecExpr: Go expression syntax plus "==>" (right associative, lowest precedence) and "#k".
func parseSpecExpr(text string) (ast.Expr, error) {
	t := strings.ReplaceAll(text, "#k", "__k")
	t = rewriteImplies(t)
	return parser.ParseExpr(t)
}

func rewriteImplies(s string) string {
	// process parenthesised groups recursively, then top level
	var sb strings.Builder
	depth := 0
	start := -1
	for i := 0; i < len(s); i++ {
		c := s[i]
		if c == '(' {
			if depth == 0 {
				start = i
			}
			depth++
		} else if c == ')' {
			depth--
			if depth == 0 && start >= 0 {
				sb.WriteByte('(')
				sb.WriteString(rewriteImplies(s[start+1 : i]))
				sb.WriteByte(')')
				start = -1
				continue
			}
		}
		if depth == 0 {
			sb.WriteByte(c)
		}
	}
	t := sb.String()
	// now split t at top-level "==>" (outside parens)
	depth = 0
	for i := 0; i+2 < len(t); i++ {
		switch t[i] {
		case '(', '[':
			depth++
		case ')', ']':
			depth--
		}
		if depth == 0 && t[i] == '=' && t[i+1] == '=' && t[i+2] == '>' {
			return "imp(" + t[:i] + ", " + rewriteImplies(t[i+3:]) + ")"
		}
	}
	return t
}

// ---------- auto contracts for range loops ----------

func (db *ContractDB) autoRangeInv(li *loopInfo) []*Clause {
	e, _ := parser.ParseExpr("__rangeindex >= -1 && __rangeindex < __rangelen")
	return []*Clause{{Text: "range index within bounds (auto)", Expr: e}}
}

func (db *ContractDB) autoRangeVariant(li *loopInfo) *Clause {
	e, _ := parser.ParseExpr("__rangelen - __rangeindex")
	return &Clause{Text: "len - rangeindex (auto)", Expr: e}
}

// ---------- evaluation environment ----------

type tv struct {
	v Value
	t types.Type // nil: untyped integer constant
}

type Env struct {
	ex   *Exec
	st   *State
	old  *State
	vars map[string]tv
	pkg  *types.Package
	fr   *Frame
	in   string // description for errors
	// assuming: the clause is being assumed (callee ensures at a call site, invariant at a loop head).
	// Range equalities (bytes_eq, bbytes_eq, bzero) are then applied constructively to the state
	// (the constrained region is defined as a copy of the other side) instead of being instantiated
	// at one skolem index; guard is the conjunction of enclosing implication antecedents.
	assuming bool
	guard    *Term
	negated  bool
	// sink: state that receives axioms instantiated during evaluation (sum unfoldings, bounds); defaults to st.
	// old(...) evaluates in the entry snapshot but instantiates into the current state.
	sink *State
	// skolems: indices at which universally quantified goals (allwf) were skolemised while evaluating a
	// consequent; instAt: indices at which a universal HYPOTHESIS (antecedent position) is instantiated.
	skolems *[]*Term
	instAt  []*Term
}

func (e *Env) factState() *State {
	if e.sink != nil {
		return e.sink
	}
	return e.st
}

func (e *Env) bind(name string, v Value, t types.Type) { e.vars[name] = tv{v, t} }

func (e *Env) withState(st *State) *Env {
	n := *e
	n.st = st
	return &n
}

type evalError struct{ msg string }

func (e *evalError) Error() string { return e.msg }

func evalFail(format string, a ...interface{}) {
	for i, x := range a {
		if s, ok := x.(string); ok && len(s) > 200 {
			a[i] = s[:200] + "…"
		}
	}
	panic(&execError{"contract", fmt.Sprintf(format, a...)})
}

func (ex *Exec) frameEnv(st *State, fr *Frame) *Env {
	env := &Env{ex: ex, st: st, vars: map[string]tv{}, fr: fr}
	fn := fr.fn
	pk := fn.Pkg
	if pk == nil && fn.Origin() != nil {
		pk = fn.Origin().Pkg
	}
	if pk == nil && fn.Parent() != nil {
		pk = fn.Parent().Pkg
	}
	if pk != nil {
		env.pkg = pk.Pkg
	}
	if fr.fc != nil {
		for i, n := range fr.fc.Params {
			if i < len(fn.Params) {
				env.bind(n, fr.regs[fn.Params[i]], fn.Params[i].Type())
			}
		}
	}
	if fn.Signature.Recv() != nil && len(fn.Params) > 0 {
		if _, ok := env.vars["self"]; !ok {
			env.bind("self", fr.regs[fn.Params[0]], fn.Params[0].Type())
		}
	}
	// source names of parameters too (unless shadowed by binders)
	for _, p := range fn.Params {
		if _, ok := env.vars[p.Name()]; !ok {
			env.bind(p.Name(), fr.regs[p], p.Type())
		}
	}
	// source-level locals and named results (latest DebugRef binding)
	for name, nb := range fr.names {
		if _, ok := env.vars[name]; ok {
			continue
		}
		if nb.isAddr {
			if p, ok := nb.v.(VPtr); ok && (p.Obj > 0 || p.Global != nil) {
				if pt, ok2 := nb.t.Underlying().(*types.Pointer); ok2 {
					env.bind(name, st.loadPtr(p), pt.Elem())
				}
			}
			continue
		}
		env.bind(name, nb.v, nb.t)
	}
	// captured variables of closures, by source name
	for i, fv := range fn.FreeVars {
		if i < len(fr.bind) {
			if _, ok := env.vars[fv.Name()]; !ok {
				bindFreeVar(env, st, fv, fr.bind[i])
			}
		}
	}
	if ex.entry != nil && fr.depth == 0 {
		env.old = &State{heap: ex.entry.Heap, globals: ex.entry.Globals}
	}
	return env
}

// bindFreeVar: go/ssa captures variables by reference; contracts name the variable, i.e. its current value.
func bindFreeVar(env *Env, st *State, fv *ssa.FreeVar, v Value) {
	if pt, ok := fv.Type().Underlying().(*types.Pointer); ok {
		if p, ok2 := v.(VPtr); ok2 && (p.Obj > 0 || p.Global != nil) {
			env.bind(fv.Name(), st.loadPtr(p), pt.Elem())
			return
		}
	}
	env.bind(fv.Name(), v, fv.Type())
}

type assertMismatch struct{}

func (ex *Exec) evalBoolClause(st *State, env *Env, c *Clause) (res *Term) {
	curPC = st.pc
	defer func() {
		if r := recover(); r != nil {
			if _, ok := r.(*assertMismatch); ok {
				res = False
				return
			}
			panic(r)
		}
	}()
	env = env.withState(st)
	env.in = c.Text
	r := env.eval(c.Expr)
	b, ok := r.v.(VBool)
	if !ok {
		evalFail("clause %q is not boolean", c.Text)
	}
	return b.T
}

// assumeClause adds a clause to the path condition, applying range equalities constructively.
func (ex *Exec) assumeClause(st *State, env *Env, c *Clause) {
	env = env.withState(st)
	env.in = c.Text
	env.assuming = true
	env.guard = True
	r := env.eval(c.Expr)
	b, ok := r.v.(VBool)
	if !ok {
		evalFail("clause %q is not boolean", c.Text)
	}
	st.assume(b.T)
}

func (ex *Exec) evalIntClause(st *State, env *Env, c *Clause) *Term {
	env = env.withState(st)
	env.in = c.Text
	r := env.eval(c.Expr)
	i, ok := r.v.(VInt)
	if !ok {
		evalFail("clause %q is not an integer", c.Text)
	}
	_, signed, _ := intInfoOr(r.t)
	if signed {
		return SExt(i.T, 64)
	}
	return ZExt(i.T, 64)
}

func intInfoOr(t types.Type) (int, bool, bool) {
	if t == nil {
		return 64, true, true
	}
	return intInfo(t)
}

var typeNames = map[string]types.Type{
	"int": types.Typ[types.Int], "int8": types.Typ[types.Int8], "int16": types.Typ[types.Int16], "int32": types.Typ[types.Int32], "int64": types.Typ[types.Int64],
	"uint": types.Typ[types.Uint], "uint8": types.Typ[types.Uint8], "uint16": types.Typ[types.Uint16], "uint32": types.Typ[types.Uint32], "uint64": types.Typ[types.Uint64],
	"byte": types.Typ[types.Uint8], "uintptr": types.Typ[types.Uintptr],
}

func (e *Env) eval(x ast.Expr) tv {
	switch n := x.(type) {
	case *ast.ParenExpr:
		return e.eval(n.X)
	case *ast.BasicLit:
		switch n.Kind {
		case token.INT:
			u, err := strconv.ParseUint(n.Value, 0, 64)
			if err != nil {
				evalFail("bad int literal %s", n.Value)
			}
			return tv{VInt{Const(64, u)}, nil}
		case token.STRING:
			s, _ := strconv.Unquote(n.Value)
			return tv{VStr{Lit: &s}, types.Typ[types.String]}
		case token.CHAR:
			s, _ := strconv.Unquote(n.Value)
			return tv{VInt{Const(64, uint64(s[0]))}, nil}
		}
	case *ast.Ident:
		return e.ident(n.Name)
	case *ast.UnaryExpr:
		ev := e
		if n.Op == token.NOT {
			c := *e
			c.assuming = false
			c.negated = !e.negated
			ev = &c
		}
		a := ev.eval(n.X)
		switch n.Op {
		case token.NOT:
			return tv{VBool{Not(a.v.(VBool).T)}, a.t}
		case token.SUB:
			return tv{VInt{Neg(a.v.(VInt).T)}, a.t}
		case token.XOR:
			return tv{VInt{BNot(a.v.(VInt).T)}, a.t}
		case token.ADD:
			return a
		}
	case *ast.BinaryExpr:
		return e.binary(n)
	case *ast.SelectorExpr:
		return e.selector(n)
	case *ast.StarExpr:
		a := e.eval(n.X)
		p, ok := a.v.(VPtr)
		if !ok {
			evalFail("deref of non-pointer in %q", e.in)
		}
		return tv{e.st.loadPtr(p), a.t.Underlying().(*types.Pointer).Elem()}
	case *ast.IndexExpr:
		return e.indexExpr(n)
	case *ast.SliceExpr:
		return e.sliceExpr(n)
	case *ast.CallExpr:
		return e.callExpr(n)
	case *ast.TypeAssertExpr:
		a := e.eval(n.X)
		iv, ok := a.v.(VIface)
		if !ok {
			evalFail("type assertion on non-interface in %q", e.in)
		}
		t, err := e.ex.L.Contracts.resolveType(e.pkg.Name(), exprText(n.Type))
		if err != nil {
			evalFail("contract drift: %v in %q", err, e.in)
		}
		if iv.Dyn != nil && !types.Identical(iv.Dyn, t) {
			panic(&assertMismatch{}) // the clause cannot hold on this path (evaluates to false)
		}
		if iv.Dyn == nil {
			evalFail("type assertion %s.(%s) not decided by the dynamic type in %q (state it with typeis first)", exprText(n.X), exprText(n.Type), e.in)
		}
		return tv{iv.Val, t}
	}
	evalFail("unsupported expression %T in %q", x, e.in)
	return tv{}
}

func (e *Env) ident(name string) tv {
	if v, ok := e.vars[name]; ok {
		return v
	}
	switch name {
	case "true":
		return tv{VBool{True}, types.Typ[types.Bool]}
	case "false":
		return tv{VBool{False}, types.Typ[types.Bool]}
	case "nil":
		return tv{VPtr{Nil: True}, types.Typ[types.UntypedNil]}
	}
	if e.pkg != nil {
		if o := e.pkg.Scope().Lookup(name); o != nil {
			return e.object(o)
		}
	}
	evalFail("contract drift: unknown identifier %q in %q", name, e.in)
	return tv{}
}

func (e *Env) object(o types.Object) tv {
	switch c := o.(type) {
	case *types.Const:
		return constTV(c.Val(), c.Type())
	case *types.Var:
		// package-level variable
		for _, sp := range e.ex.L.Prog.AllPackages() {
			if sp.Pkg == o.Pkg() {
				if g, ok := sp.Members[o.Name()].(*ssa.Global); ok {
					return tv{e.st.loadPtr(VPtr{Global: g}), o.Type()}
				}
			}
		}
	}
	evalFail("unsupported object %s in %q", o, e.in)
	return tv{}
}

func constTV(v constant.Value, t types.Type) tv {
	switch v.Kind() {
	case constant.Int:
		var u uint64
		if i, ok := constant.Int64Val(v); ok {
			u = uint64(i)
		} else if uu, ok := constant.Uint64Val(v); ok {
			u = uu
		}
		if b, ok := t.Underlying().(*types.Basic); ok && b.Info()&types.IsUntyped != 0 {
			return tv{VInt{Const(64, u)}, nil}
		}
		w, _, _ := intInfo(t)
		return tv{VInt{Const(w, u)}, t}
	case constant.Bool:
		return tv{VBool{BoolC(constant.BoolVal(v))}, types.Typ[types.Bool]}
	case constant.String:
		s := constant.StringVal(v)
		return tv{VStr{Lit: &s}, types.Typ[types.String]}
	}
	evalFail("unsupported constant kind")
	return tv{}
}

// unify converts an untyped operand to the other's type.
func unify(a, b tv) (tv, tv) {
	if a.t == nil && b.t != nil {
		if w, _, ok := intInfo(b.t); ok {
			a = tv{VInt{ZExt(a.v.(VInt).T, w)}, b.t}
			if w < 64 {
				a = tv{VInt{Extract(w-1, 0, a.v.(VInt).T)}, b.t}
			}
		}
	} else if b.t == nil && a.t != nil {
		if w, _, ok := intInfo(a.t); ok {
			b = tv{VInt{Extract(w-1, 0, ZExt(b.v.(VInt).T, 64))}, a.t}
		}
	}
	return a, b
}

func (e *Env) binary(n *ast.BinaryExpr) tv {
	if n.Op == token.LAND || n.Op == token.LOR {
		ev := e
		if n.Op == token.LOR && e.assuming {
			c := *e
			c.assuming = false
			c.negated = true
			ev = &c
		}
		a := ev.eval(n.X)
		// short circuit on a syntactically decided left operand (the right one may not be evaluable then)
		if ab, ok := a.v.(VBool); ok {
			if n.Op == token.LAND && ab.T.IsFalse() {
				return tv{VBool{False}, types.Typ[types.Bool]}
			}
			if n.Op == token.LOR && ab.T.IsTrue() {
				return tv{VBool{True}, types.Typ[types.Bool]}
			}
		}
		b := ev.eval(n.Y)
		at, ok1 := a.v.(VBool)
		bt, ok2 := b.v.(VBool)
		if !ok1 || !ok2 {
			evalFail("non-boolean operand of %s in %q", n.Op, e.in)
		}
		if n.Op == token.LAND {
			return tv{VBool{And(at.T, bt.T)}, types.Typ[types.Bool]}
		}
		return tv{VBool{Or(at.T, bt.T)}, types.Typ[types.Bool]}
	}
	a := e.eval(n.X)
	b := e.eval(n.Y)
	if n.Op == token.SHL || n.Op == token.SHR {
		ai, ok := a.v.(VInt)
		bi, ok2 := b.v.(VInt)
		if !ok || !ok2 {
			evalFail("shift of non-integers in %q", e.in)
		}
		_, signed, _ := intInfoOr(a.t)
		var bt types.Type = types.Typ[types.Uint64]
		return tv{VInt{e.ex.shift(e.st, nil, nil, n.Op, ai.T, bi.T, signed, bt)}, a.t}
	}
	a, b = unify(a, b)
	// nil comparisons and reference comparisons
	switch a.v.(type) {
	case VInt, VBool, VStr, VStruct:
	default:
		if n.Op == token.EQL || n.Op == token.NEQ {
			eq := e.ex.refEq(e.st, a.v, b.v)
			if n.Op == token.NEQ {
				eq = Not(eq)
			}
			return tv{VBool{eq}, types.Typ[types.Bool]}
		}
	}
	if ai, ok := a.v.(VInt); ok {
		bi, ok2 := b.v.(VInt)
		if !ok2 {
			evalFail("mixed operands of %s in %q", n.Op, e.in)
		}
		if ai.T.S != bi.T.S {
			evalFail("operand width mismatch (%d vs %d bits) for %s in %q: add a conversion", ai.T.S.W, bi.T.S.W, n.Op, e.in)
		}
		at := a.t
		if at == nil {
			at = b.t
		}
		var tt types.Type = at
		if at == nil {
			tt = types.Typ[types.Int]
		}
		r := e.ex.binopNoSafety(n.Op, a.v, b.v, tt)
		switch n.Op {
		case token.EQL, token.NEQ, token.LSS, token.LEQ, token.GTR, token.GEQ:
			return tv{r, types.Typ[types.Bool]}
		}
		return tv{r, at}
	}
	r := e.ex.binopNoSafety(n.Op, a.v, b.v, a.t)
	switch n.Op {
	case token.EQL, token.NEQ, token.LSS, token.LEQ, token.GTR, token.GEQ:
		return tv{r, types.Typ[types.Bool]}
	}
	return tv{r, a.t}
}

func (ex *Exec) binopNoSafety(op token.Token, a, b Value, t types.Type) Value {
	tmp := newState()
	saved := ex.noSafety
	ex.noSafety = true
	defer func() { ex.noSafety = saved }()
	return ex.binop(tmp, nil, nil, op, a, b, t, t)
}

func (e *Env) selector(n *ast.SelectorExpr) tv {
	// package-qualified identifier?
	if id, ok := n.X.(*ast.Ident); ok {
		if _, bound := e.vars[id.Name]; !bound && e.pkg != nil {
			for _, imp := range e.pkg.Imports() {
				if imp.Name() == id.Name {
					o := imp.Scope().Lookup(n.Sel.Name)
					if o == nil {
						evalFail("contract drift: no %s.%s", id.Name, n.Sel.Name)
					}
					return e.object(o)
				}
			}
		}
	}
	a := e.eval(n.X)
	return e.field(a, n.Sel.Name)
}

func (e *Env) field(a tv, name string) tv {
	if a.t == nil {
		evalFail("field %s of untyped value in %q", name, e.in)
	}
	obj, index, _ := types.LookupFieldOrMethod(a.t, true, e.pkg, name)
	fld, ok := obj.(*types.Var)
	if !ok || fld == nil {
		// try without package restriction for unexported fields of other repo packages
		if fld == nil {
			var bt types.Type = a.t
			if pt, ok := bt.Underlying().(*types.Pointer); ok {
				bt = pt.Elem()
			}
			if nt, ok := bt.(*types.Named); ok && nt.Obj().Pkg() != nil {
				obj, index, _ = types.LookupFieldOrMethod(a.t, true, nt.Obj().Pkg(), name)
				if f2, ok2 := obj.(*types.Var); ok2 {
					fld = f2
				}
			}
		}
		if fld == nil {
			for _, sp := range e.ex.L.SSAPkgs {
				obj, index, _ = types.LookupFieldOrMethod(a.t, true, sp.Pkg, name)
				if f2, ok2 := obj.(*types.Var); ok2 {
					fld = f2
					break
				}
			}
		}
		if fld == nil {
			evalFail("contract drift: no field %q in %s (%q)", name, typeStr(a.t), e.in)
		}
	}
	cur := a
	for _, ix := range index {
		// auto-deref
		if pt, ok := cur.t.Underlying().(*types.Pointer); ok {
			p, ok2 := cur.v.(VPtr)
			if !ok2 {
				evalFail("selector through non-pointer value in %q", e.in)
			}
			if p.Obj <= 0 && p.Global == nil {
				evalFail("selector through nil/unmaterialised pointer in %q", e.in)
			}
			cur = tv{e.st.loadPtr(p), pt.Elem()}
		}
		st := cur.t.Underlying().(*types.Struct)
		sv, ok := cur.v.(VStruct)
		if !ok {
			evalFail("selector on non-struct %T in %q", cur.v, e.in)
		}
		cur = tv{sv.F[ix], st.Field(ix).Type()}
	}
	return cur
}

func (e *Env) indexExpr(n *ast.IndexExpr) tv {
	a := e.eval(n.X)
	i := e.eval(n.Index)
	iv, ok := i.v.(VInt)
	if !ok {
		evalFail("non-integer index in %q", e.in)
	}
	_, signed, _ := intInfoOr(i.t)
	idx := iv.T
	if signed {
		idx = SExt(idx, 64)
	} else {
		idx = ZExt(idx, 64)
	}
	switch s := a.v.(type) {
	case VSlice:
		et := a.t.Underlying().(*types.Slice).Elem()
		if s.Obj == 0 {
			return tv{zeroValue(et), et}
		}
		return tv{e.st.loadPtr(VPtr{Obj: s.Obj, Path: []PathEl{{Index: Add(s.Off, idx), Field: -1}}}), et}
	case VArray:
		et := a.t.Underlying().(*types.Array).Elem()
		return tv{arrayRead(s, idx), et}
	case VArrayRef:
		et := a.t.Underlying().(*types.Array).Elem()
		return tv{e.st.loadPtr(VPtr{Obj: s.Obj, Path: []PathEl{{Index: idx, Field: -1}}}), et}
	case VPtr:
		if at, ok := a.t.Underlying().(*types.Pointer); ok {
			if arr, ok2 := at.Elem().Underlying().(*types.Array); ok2 {
				v := e.st.loadPtr(VPtr{Obj: s.Obj, Global: s.Global, Path: append(append([]PathEl{}, s.Path...), PathEl{Index: idx, Field: -1})})
				return tv{v, arr.Elem()}
			}
		}
	}
	evalFail("index of %T in %q", a.v, e.in)
	return tv{}
}

func (e *Env) sliceExpr(n *ast.SliceExpr) tv {
	a := e.eval(n.X)
	s, ok := a.v.(VSlice)
	if !ok {
		evalFail("slice expression on %T in %q", a.v, e.in)
	}
	get := func(x ast.Expr) *Term {
		if x == nil {
			return nil
		}
		r := e.eval(x)
		_, signed, _ := intInfoOr(r.t)
		if signed {
			return SExt(r.v.(VInt).T, 64)
		}
		return ZExt(r.v.(VInt).T, 64)
	}
	lo, hi := get(n.Low), get(n.High)
	if lo == nil {
		lo = Const(64, 0)
	}
	if hi == nil {
		hi = s.Len
	}
	return tv{VSlice{Obj: s.Obj, Off: Add(s.Off, lo), Len: Sub(hi, lo), Cap: Sub(s.Cap, lo), Nil: nilT(s.Nil)}, a.t}
}

func (e *Env) intArg(x ast.Expr) *Term {
	r := e.eval(x)
	iv, ok := r.v.(VInt)
	if !ok {
		evalFail("integer argument expected in %q", e.in)
	}
	_, signed, _ := intInfoOr(r.t)
	if signed {
		return SExt(iv.T, 64)
	}
	return ZExt(iv.T, 64)
}

func (e *Env) boolArg(x ast.Expr) *Term {
	r := e.eval(x)
	b, ok := r.v.(VBool)
	if !ok {
		evalFail("boolean argument expected in %q", e.in)
	}
	return b.T
}

func (e *Env) callExpr(n *ast.CallExpr) tv {
	// conversions
	if id, ok := n.Fun.(*ast.Ident); ok {
		if t, isT := typeNames[id.Name]; isT && len(n.Args) == 1 {
			if _, shadow := e.vars[id.Name]; !shadow {
				a := e.eval(n.Args[0])
				iv, ok := a.v.(VInt)
				if !ok {
					evalFail("conversion of non-integer in %q", e.in)
				}
				w, _, _ := intInfo(t)
				_, sf, _ := intInfoOr(a.t)
				if sf {
					return tv{VInt{SExt(iv.T, w)}, t}
				}
				return tv{VInt{ZExt(iv.T, w)}, t}
			}
		}
		switch id.Name {
		case "old":
			if e.old == nil {
				evalFail("old() outside a two-state context in %q", e.in)
			}
			o := e.withState(e.old)
			o.sink = e.factState()
			o.old = nil
			o.assuming = false
			return o.eval(n.Args[0])
		case "imp":
			if !e.assuming && !e.negated {
				if pre := e.boolArg(n.Args[0]); pre.IsFalse() {
					return tv{VBool{True}, types.Typ[types.Bool]}
				}
				// goal position: evaluate the consequent first, then instantiate universal hypotheses of the
				// antecedent at the consequent's skolem indices (a sound weakening of the hypothesis)
				var sk []*Term
				cons := *e
				cons.skolems = &sk
				bT := cons.boolArg(n.Args[1])
				ant := *e
				ant.negated = true
				ant.instAt = sk
				aT := ant.boolArg(n.Args[0])
				if e.skolems != nil {
					*e.skolems = append(*e.skolems, sk...)
				}
				return tv{VBool{Implies(aT, bT)}, types.Typ[types.Bool]}
			}
			a := e.boolArg(n.Args[0])
			if a.IsFalse() {
				return tv{VBool{True}, types.Typ[types.Bool]}
			}
			if e.assuming {
				sub := *e
				sub.guard = And(e.guard, a)
				return tv{VBool{Implies(a, sub.boolArg(n.Args[1]))}, types.Typ[types.Bool]}
			}
			return tv{VBool{Implies(a, e.boolArg(n.Args[1]))}, types.Typ[types.Bool]}
		case "ite":
			c := e.boolArg(n.Args[0])
			if c.IsTrue() {
				return e.eval(n.Args[1])
			}
			if c.IsFalse() {
				return e.eval(n.Args[2])
			}
			a := e.eval(n.Args[1])
			b := e.eval(n.Args[2])
			a, b = unify(a, b)
			return tv{iteValue(c, a.v, b.v), a.t}
		case "len", "cap":
			a := e.eval(n.Args[0])
			switch s := a.v.(type) {
			case VSlice:
				if id.Name == "len" {
					return tv{VInt{s.Len}, types.Typ[types.Int]}
				}
				return tv{VInt{s.Cap}, types.Typ[types.Int]}
			case VArray:
				return tv{VInt{Const(64, uint64(len(s.E)))}, types.Typ[types.Int]}
			case VStr:
				if s.Lit != nil {
					return tv{VInt{Const(64, uint64(len(*s.Lit)))}, types.Typ[types.Int]}
				}
				return tv{VInt{App("strlen", BV(64), s.ID)}, types.Typ[types.Int]}
			}
			evalFail("len of %T in %q", a.v, e.in)
		case "u8", "be16", "be32", "be64":
			a := e.eval(n.Args[0])
			s, ok := a.v.(VSlice)
			if !ok {
				evalFail("%s of non-slice in %q", id.Name, e.in)
			}
			off := e.intArg(n.Args[1])
			nb := map[string]int{"u8": 1, "be16": 2, "be32": 4, "be64": 8}[id.Name]
			var t *Term
			for k := 0; k < nb; k++ {
				b := e.readByte(s, Add(off, Const(64, uint64(k))))
				if t == nil {
					t = b
				} else {
					t = Concat(t, b)
				}
			}
			return tv{VInt{t}, map[int]types.Type{1: types.Typ[types.Uint8], 2: types.Typ[types.Uint16], 4: types.Typ[types.Uint32], 8: types.Typ[types.Uint64]}[nb]}
		case "fresh":
			a := e.eval(n.Args[0])
			return tv{VBool{BoolC(e.isFresh(a.v))}, types.Typ[types.Bool]}
		case "typeis":
			a := e.eval(n.Args[0])
			tname := exprText(n.Args[1])
			t, err := e.ex.L.Contracts.resolveType(e.pkg.Name(), tname)
			if err != nil {
				evalFail("contract drift: %v in %q", err, e.in)
			}
			iv, ok := a.v.(VIface)
			if !ok {
				evalFail("typeis on non-interface in %q", e.in)
			}
			if iv.Dyn != nil {
				return tv{VBool{BoolC(types.Identical(iv.Dyn, t))}, types.Typ[types.Bool]}
			}
			if iv.ID == nil {
				return tv{VBool{False}, types.Typ[types.Bool]}
			}
			return tv{VBool{And(Not(nilT(iv.Nil)), App("typeis:"+typeStr(t), BoolSort, iv.ID))}, types.Typ[types.Bool]}
		case "upper":
			a := e.eval(n.Args[0])
			sv, ok := a.v.(VStr)
			if !ok {
				evalFail("upper of non-string in %q", e.in)
			}
			if sv.Lit != nil {
				u := strings.ToUpper(*sv.Lit)
				return tv{VStr{Lit: &u}, types.Typ[types.String]}
			}
			return tv{VStr{ID: App("strings.ToUpper", BV(64), sv.ID)}, types.Typ[types.String]}
		case "sametype":
			// sametype(a, b): two interface values hold the same dynamic type (both known to the executor)
			a, ok1 := e.eval(n.Args[0]).v.(VIface)
			b, ok2 := e.eval(n.Args[1]).v.(VIface)
			if !ok1 || !ok2 {
				evalFail("sametype of non-interfaces in %q", e.in)
			}
			if a.Dyn == nil || b.Dyn == nil {
				return tv{VBool{False}, types.Typ[types.Bool]}
			}
			return tv{VBool{BoolC(types.Identical(a.Dyn, b.Dyn))}, types.Typ[types.Bool]}
		case "pad8":
			a := e.intArg(n.Args[0])
			return tv{VInt{Mul(UDiv(Add(a, Const(64, 7)), Const(64, 8)), Const(64, 8))}, types.Typ[types.Int]}
		case "min", "max":
			a := e.eval(n.Args[0])
			b := e.eval(n.Args[1])
			a, b = unify(a, b)
			_, signed, _ := intInfoOr(a.t)
			var lt *Term
			if signed {
				lt = SLt(a.v.(VInt).T, b.v.(VInt).T)
			} else {
				lt = ULt(a.v.(VInt).T, b.v.(VInt).T)
			}
			if id.Name == "max" {
				lt = Not(lt)
			}
			return tv{VInt{Ite(lt, a.v.(VInt).T, b.v.(VInt).T)}, a.t}
		case "sum":
			return e.sumExpr(n)
		case "elemsat":
			return tv{VBool{e.elemsAt(n)}, types.Typ[types.Bool]}
		case "allspec":
			return tv{VBool{e.allSpec(n)}, types.Typ[types.Bool]}
		case "bbytes_eq", "bzero":
			return e.bufBytesEq(id.Name, n)
		case "sbytes_eq":
			// sbytes_eq(slice, soff, buf, at, n): like bbytes_eq, but when assumed the slice is the defined side
			if e.assuming && !e.negated {
				s, ok := e.eval(n.Args[0]).v.(VSlice)
				if !ok {
					evalFail("sbytes_eq: first argument is not a slice in %q", e.in)
				}
				so := e.intArg(n.Args[1])
				mem, off, _ := e.bufView(e.eval(n.Args[2]))
				at := e.intArg(n.Args[3])
				ln := Ite(e.guard, e.intArg(n.Args[4]), Const(64, 0))
				if s.Obj != 0 {
					o := *e.st.heap[s.Obj]
					o.Mem = o.Mem.Copy(Add(s.Off, so), mem, Add(off, at), ln)
					e.st.heap[s.Obj] = &o
				}
				return tv{VBool{True}, types.Typ[types.Bool]}
			}
			swapped := &ast.CallExpr{Fun: n.Fun, Args: []ast.Expr{n.Args[2], n.Args[3], n.Args[0], n.Args[1], n.Args[4]}}
			return e.bufBytesEq("bbytes_eq", swapped)
		case "blen":
			_, _, ln := e.bufView(e.eval(n.Args[0]))
			return tv{VInt{ln}, types.Typ[types.Int]}
		case "bbyte", "bbe16", "bbe32", "bbe64":
			mem, off, _ := e.bufView(e.eval(n.Args[0]))
			at := e.intArg(n.Args[1])
			nb := map[string]int{"bbyte": 1, "bbe16": 2, "bbe32": 4, "bbe64": 8}[id.Name]
			var t *Term
			for k := 0; k < nb; k++ {
				b := mem.Read(Add(off, Add(at, Const(64, uint64(k)))))
				if t == nil {
					t = b
				} else {
					t = Concat(t, b)
				}
			}
			return tv{VInt{t}, map[int]types.Type{1: types.Typ[types.Uint8], 2: types.Typ[types.Uint16], 4: types.Typ[types.Uint32], 8: types.Typ[types.Uint64]}[nb]}
		case "allzero":
			// allzero(s): every byte of the slice is zero (assumed: constructively; proved: at a skolem index)
			a, ok := e.eval(n.Args[0]).v.(VSlice)
			if !ok {
				evalFail("allzero of non-slice in %q", e.in)
			}
			if a.Obj == 0 {
				return tv{VBool{True}, types.Typ[types.Bool]}
			}
			if e.negated {
				evalFail("allzero under negation/disjunction in %q", e.in)
			}
			if e.assuming {
				o := *e.st.heap[a.Obj]
				o.Mem = o.Mem.Copy(a.Off, bmZeros, Const(64, 0), Ite(e.guard, a.Len, Const(64, 0)))
				e.st.heap[a.Obj] = &o
				return tv{VBool{True}, types.Typ[types.Bool]}
			}
			i := Fresh("skolem_z", BV(64))
			return tv{VBool{Implies(ULt(i, a.Len), Eq(e.readByte(a, i), Const(8, 0)))}, types.Typ[types.Bool]}
		case "bytes_eq":
			// bytes_eq(a, aoff, b, boff, n): checked at a skolem index
			return e.bytesEq(n)
		}
		if specs := e.ex.L.Contracts.Specs[id.Name]; len(specs) > 0 {
			return e.specCall(id.Name, specs, n)
		}
		if strings.HasPrefix(id.Name, "all") && len(e.ex.L.Contracts.Specs[id.Name[3:]]) > 0 && len(n.Args) == 1 {
			a := e.eval(n.Args[0])
			sl, ok := a.v.(VSlice)
			if !ok {
				evalFail("%s over non-slice in %q", id.Name, e.in)
			}
			return tv{VBool{e.allPred(id.Name[3:], sl, a.t.Underlying().(*types.Slice).Elem())}, types.Typ[types.Bool]}
		}
	}
	evalFail("unsupported call %s in %q", exprText(n.Fun), e.in)
	return tv{}
}

func exprText(x ast.Expr) string {
	switch n := x.(type) {
	case *ast.Ident:
		return n.Name
	case *ast.SelectorExpr:
		return exprText(n.X) + "." + n.Sel.Name
	case *ast.StarExpr:
		return "*" + exprText(n.X)
	case *ast.ArrayType:
		return "[]" + exprText(n.Elt)
	case *ast.ParenExpr:
		return exprText(n.X)
	}
	return fmt.Sprintf("%T", x)
}

func (e *Env) readByte(s VSlice, off *Term) *Term {
	if s.Obj == 0 {
		return Const(8, 0)
	}
	o := e.st.heap[s.Obj]
	if o == nil || o.Kind != okBytes {
		evalFail("byte read from non-byte object in %q", e.in)
	}
	return o.Mem.Read(Add(s.Off, off))
}

func (e *Env) isFresh(v Value) bool {
	switch x := v.(type) {
	case VSlice:
		if x.Obj == 0 {
			return true
		}
		o := e.st.heap[x.Obj]
		return o != nil && o.Fresh
	case VPtr:
		if x.Obj == 0 {
			return true
		}
		o := e.st.heap[x.Obj]
		return o != nil && o.Fresh
	}
	return false
}

// specCall evaluates a user-defined spec function, dispatching on the first argument's type.
func (e *Env) specCall(name string, specs []*SpecFunc, n *ast.CallExpr) tv {
	args := make([]tv, len(n.Args))
	for i, a := range n.Args {
		args[i] = e.eval(a)
	}
	return e.specApply(name, specs, args)
}

func (e *Env) specApply(name string, specs []*SpecFunc, args []tv) tv {
	if len(args) == 0 {
		evalFail("spec %s needs an argument", name)
	}
	a0 := args[0]
	// interface with known dynamic type: dispatch on it
	if iv, ok := a0.v.(VIface); ok {
		if iv.Dyn != nil {
			a0 = tv{iv.Val, iv.Dyn}
		} else {
			if iv.ID == nil {
				if strings.HasPrefix(name, "wf") {
					return tv{VBool{False}, types.Typ[types.Bool]}
				}
				if name == "size" {
					return tv{VInt{Const(64, 0)}, types.Typ[types.Int]} // convention: an absent child occupies no bytes
				}
				evalFail("spec %s applied to nil interface in %q", name, e.in)
			}
			// abstract: uninterpreted function of the identity
			rs := e.ex.L.Contracts.specResultSort(name)
			t := App("spec:"+name, rs, iv.ID)
			if strings.HasPrefix(name, "wf") {
				if name == "wf" {
					// for a value of unknown dynamic type: wf ==> wfl (proved for every implementer)
					e.factState().assume(Implies(t, App("spec:wfl", BoolSort, iv.ID)))
				}
				return tv{VBool{And(Not(nilT(iv.Nil)), t)}, types.Typ[types.Bool]}
			}
			if rs.K == SBV {
				e.factState().assume(ULe(t, Const(64, 1<<50)))
				return tv{VInt{t}, types.Typ[types.Int]}
			}
			return tv{VBool{t}, types.Typ[types.Bool]}
		}
	}
	if strings.HasPrefix(name, "wf") {
		if p, ok := a0.v.(VPtr); ok && a0.t != nil {
			if _, isPtr := a0.t.Underlying().(*types.Pointer); isPtr {
				if p.Obj == 0 && p.Global == nil {
					return tv{VBool{False}, types.Typ[types.Bool]}
				}
				if p.Nil != nil && !p.Nil.IsFalse() {
					q := p
					q.Nil = nil
					r := e.specApply(name, specs, append([]tv{{q, a0.t}}, args[1:]...))
					return tv{VBool{And(Not(p.Nil), r.v.(VBool).T)}, types.Typ[types.Bool]}
				}
			}
		}
	}
	for _, sf := range specs {
		if len(sf.Params) != len(args) {
			continue
		}
		if a0.t != nil && types.Identical(sf.PTypes[0], a0.t) {
			sub := &Env{ex: e.ex, st: e.st, old: e.old, sink: e.sink, assuming: e.assuming, guard: e.guard, negated: e.negated, skolems: e.skolems, instAt: e.instAt, vars: map[string]tv{}, pkg: e.ex.L.SSAPkgs[sf.Pkg].Pkg, in: sf.Body.Text}
			sub.bind(sf.Params[0], a0.v, a0.t)
			for i := 1; i < len(args); i++ {
				sub.bind(sf.Params[i], args[i].v, sf.PTypes[i])
			}
			return sub.eval(sf.Body.Expr)
		}
		// value of struct type vs pointer spec and vice versa
		if a0.t != nil {
			if pt, ok := sf.PTypes[0].(*types.Pointer); ok && types.Identical(pt.Elem(), a0.t) {
				// spec wants pointer, we have a struct value: box it in a temporary cell
				p := e.st.allocCell(a0.v, true, "spec-tmp")
				sub := &Env{ex: e.ex, st: e.st, old: e.old, sink: e.sink, assuming: e.assuming, guard: e.guard, negated: e.negated, skolems: e.skolems, instAt: e.instAt, vars: map[string]tv{}, pkg: e.ex.L.SSAPkgs[sf.Pkg].Pkg, in: sf.Body.Text}
				sub.bind(sf.Params[0], p, sf.PTypes[0])
				for i := 1; i < len(args); i++ {
					sub.bind(sf.Params[i], args[i].v, sf.PTypes[i])
				}
				return sub.eval(sf.Body.Expr)
			}
		}
	}
	tn := "untyped"
	if a0.t != nil {
		tn = typeStr(a0.t)
	}
	if name == "wfl" {
		// default: Len() of this kind needs nothing from its receiver (proved: its Len is verified under this)
		if p, ok := a0.v.(VPtr); ok {
			return tv{VBool{Not(nilT(p.Nil))}, types.Typ[types.Bool]}
		}
		return tv{VBool{True}, types.Typ[types.Bool]}
	}
	evalFail("no spec %s for type %s in %q", name, tn, e.in)
	return tv{}
}

func (db *ContractDB) specResultSort(name string) Sort {
	if strings.HasPrefix(name, "wf") || strings.HasPrefix(name, "is") {
		return BoolSort
	}
	return BV(64)
}

// sum(xs) / sum(xs, k): sum of size(elem) over the first k elements, as an uninterpreted function
// of (sequence identity, k) with unfolding instances added on demand.
func (e *Env) sumExpr(n *ast.CallExpr) tv {
	a := e.eval(n.Args[0])
	s, ok := a.v.(VSlice)
	if !ok {
		evalFail("sum over non-slice in %q", e.in)
	}
	k := s.Len
	if len(n.Args) > 1 {
		k = e.intArg(n.Args[1])
	}
	et := a.t.Underlying().(*types.Slice).Elem()
	return tv{VInt{e.sumTerm(s, et, k)}, types.Typ[types.Int]}
}

// sumSeqs: sequences over which sum() has been used in the current verification (id -> slice length).
var sumSeqs = map[int]*Term{}

func (e *Env) sumTerm(s VSlice, et types.Type, k *Term) *Term {
	if s.Obj == 0 {
		return Const(64, 0)
	}
	o := e.st.heap[s.Obj]
	if o == nil || o.Kind != okSeq {
		evalFail("sum over non-sequence object in %q", e.in)
	}
	if !s.Off.IsConst() || s.Off.Val != 0 {
		evalFail("sum over re-sliced sequence in %q", e.in)
	}
	fname := fmt.Sprintf("sum:seq%d", o.Seq.id)
	if _, ok := sumSeqs[o.Seq.id]; !ok {
		sumSeqs[o.Seq.id] = s.Len
	}
	t := App(fname, BV(64), k)
	st := e.factState()
	st.assume(Eq(App(fname, BV(64), Const(64, 0)), Const(64, 0)))
	total := App(fname, BV(64), s.Len)
	st.assume(ULe(total, Const(64, 1<<50)))
	// an appended sequence agrees with the sequence it was appended to on every prefix of the old length
	if par := o.Seq.parent; par != nil && o.Seq.parentLen != nil {
		pname := fmt.Sprintf("sum:seq%d", par.id)
		pl := o.Seq.parentLen
		st.assume(Eq(App(fname, BV(64), pl), App(pname, BV(64), pl)))
		st.assume(Implies(ULe(k, pl), Eq(App(fname, BV(64), k), App(pname, BV(64), k))))
		st.assume(Eq(App(pname, BV(64), Const(64, 0)), Const(64, 0)))
		st.assume(ULe(App(pname, BV(64), pl), Const(64, 1<<50)))
	}
	st.assume(Implies(ULe(k, s.Len), ULe(t, total)))
	if !(k.IsConst() && k.Val == 0) {
		x := Sub(k, Const(64, 1))
		// unfolding at k-1 (guarded)
		guard := And(ULt(x, k), ULe(k, s.Len))
		if !guard.IsFalse() {
			cur := e.st.heap[s.Obj]
			specs := e.ex.L.Contracts.Specs["size"]
			var szT *Term
			if len(cur.Seq.entries) > 0 && !x.IsConst() {
				// stored (appended) elements at possibly equal indices: the size by cases, since element values
				// of interface type cannot be merged under a symbolic condition
				szT = e.seqMapAt(cur, x, len(cur.Seq.entries)-1, func(ev Value) *Term {
					sz := e.specApply("size", specs, []tv{{ev, et}})
					return ZExt(sz.v.(VInt).T, 64)
				})
			} else {
				ev := e.st.seqRead(cur, x)
				sz := e.specApply("size", specs, []tv{{ev, et}})
				szT = ZExt(sz.v.(VInt).T, 64)
			}
			prev := App(fname, BV(64), x)
			st.assume(Implies(guard, And(Eq(t, Add(prev, szT)), ULe(prev, t), ULe(szT, Const(64, 1<<50)))))
		}
	}
	return t
}

// predOf evaluates the boolean spec pred(v) for a value of static type t (abstract interfaces: uninterpreted
// predicate of the identity; predicates whose name starts with "wf" imply non-nil).
func (e *Env) predOf(pred string, v Value, t types.Type) *Term {
	specs := e.ex.L.Contracts.Specs[pred]
	r := e.specApply(pred, specs, []tv{{v, t}})
	b, ok := r.v.(VBool)
	if !ok {
		evalFail("%s is not boolean", pred)
	}
	return b.T
}

func (e *Env) wfOf(v Value, t types.Type) *Term { return e.predOf("wf", v, t) }

// impliedPreds: recording all<p> also records all<q> for every q that p implies (wf ==> wfl: proved per kind).
var impliedPreds = map[string][]string{"wf": {"wfl"}}

// allPred: every element of the slice satisfies pred. Assumed: recorded on the sequence and instantiated at every
// element read (and for elements already materialised). Proved: at a skolem index.
func (e *Env) allPred(pred string, s VSlice, et types.Type) *Term {
	if s.Obj == 0 {
		return True
	}
	o := e.st.heap[s.Obj]
	if o == nil || o.Kind != okSeq {
		evalFail("all%s over non-sequence object in %q", pred, e.in)
	}
	if !s.Off.IsConst() || s.Off.Val != 0 {
		evalFail("all%s over re-sliced sequence in %q", pred, e.in)
	}
	if e.negated {
		// hypothesis position: finitely many instances
		r := True
		for _, k := range e.instAt {
			r = And(r, Implies(ULt(k, s.Len), e.seqPredAt(pred, o, k, len(o.Seq.entries)-1, et)))
		}
		return r
	}
	if e.assuming {
		hi := Ite(e.guard, s.Len, Const(64, 0))
		c := *o
		q := *o.Seq
		nm := map[string]*Term{}
		for k, v := range q.allWF {
			nm[k] = v
		}
		preds := append([]string{pred}, impliedPreds[pred]...)
		fs := e.factState()
		for _, pn := range preds {
			if len(e.ex.L.Contracts.Specs[pn]) == 0 {
				continue
			}
			h2 := hi
			if old := nm[pn]; old != nil {
				h2 = Ite(ULt(old, hi), hi, old)
			}
			nm[pn] = h2
		}
		q.allWF = nm
		c.Seq = &q
		e.st.heap[s.Obj] = &c
		for _, me := range append(append([]seqEntry{}, q.entries...), q.memo...) {
			for _, pn := range preds {
				if len(e.ex.L.Contracts.Specs[pn]) == 0 {
					continue
				}
				fs.assume(Implies(ULt(me.idx, hi), e.predOf(pn, me.val, et)))
			}
		}
		return True
	}
	k := Fresh("all"+pred+"_k", BV(64))
	if e.skolems != nil {
		*e.skolems = append(*e.skolems, k)
	}
	return Implies(ULt(k, s.Len), e.seqPredAt(pred, o, k, len(o.Seq.entries)-1, et))
}

// seqPredAt: pred of the element at symbolic index k, by cases over the stored entries, then the base.
func (e *Env) seqPredAt(pred string, o *Object, k *Term, upto int, et types.Type) *Term {
	q := o.Seq
	for i := upto; i >= 0; i-- {
		en := q.entries[i]
		return Ite(Eq(en.idx, k), e.predOf(pred, en.val, et), e.seqPredAt(pred, o, k, i-1, et))
	}
	if q.zero {
		return False
	}
	base := e.st.seqReadFrom(o, k, -1)
	w := e.predOf(pred, base, et)
	if hi := q.allWF[pred]; hi != nil {
		return Or(ULt(k, hi), w)
	}
	return w
}

func (e *Env) bytesEq(n *ast.CallExpr) tv {
	if len(n.Args) != 5 {
		evalFail("bytes_eq(a, aoff, b, boff, n) in %q", e.in)
	}
	a, ok1 := e.eval(n.Args[0]).v.(VSlice)
	b, ok2 := e.eval(n.Args[2]).v.(VSlice)
	if !ok1 || !ok2 {
		evalFail("bytes_eq on non-slices in %q", e.in)
	}
	ao := e.intArg(n.Args[1])
	bo := e.intArg(n.Args[3])
	ln := e.intArg(n.Args[4])
	if e.negated {
		evalFail("range equality under negation/disjunction in %q", e.in)
	}
	if e.assuming {
		if a.Obj != 0 {
			bmem, boff, _, _ := e.ex.bytesOf(e.st, b)
			n2 := Ite(e.guard, ln, Const(64, 0))
			o := *e.st.heap[a.Obj]
			o.Mem = o.Mem.Copy(Add(a.Off, ao), bmem, Add(boff, bo), n2)
			e.st.heap[a.Obj] = &o
		}
		return tv{VBool{True}, types.Typ[types.Bool]}
	}
	if ln.IsConst() && ln.Val <= 64 {
		r := True
		for k := uint64(0); k < ln.Val; k++ {
			r = And(r, Eq(e.readByte(a, Add(ao, Const(64, k))), e.readByte(b, Add(bo, Const(64, k)))))
		}
		return tv{VBool{r}, types.Typ[types.Bool]}
	}
	// skolem index: sound when the clause is a proof goal (universal); when assumed it is only one instance.
	i := Fresh("skolem_i", BV(64))
	r := Implies(ULt(i, ln), Eq(e.readByte(a, Add(ao, i)), e.readByte(b, Add(bo, i))))
	return tv{VBool{r}, types.Typ[types.Bool]}
}

// evalLoc evaluates a modifies-expression to a location: "*p" or "p" (whole pointee), "p.f.g" (field).
func (e *Env) evalLoc(x ast.Expr) (VPtr, types.Type) {
	switch n := x.(type) {
	case *ast.ParenExpr:
		return e.evalLoc(n.X)
	case *ast.StarExpr:
		a := e.eval(n.X)
		p, ok := a.v.(VPtr)
		if !ok {
			evalFail("modifies *%s: not a pointer", exprText(n.X))
		}
		return p, a.t.Underlying().(*types.Pointer).Elem()
	case *ast.Ident:
		if _, bound := e.vars[n.Name]; !bound && e.pkg != nil {
			if o, ok := e.pkg.Scope().Lookup(n.Name).(*types.Var); ok {
				for _, sp := range e.ex.L.Prog.AllPackages() {
					if sp.Pkg == o.Pkg() {
						if g, ok := sp.Members[o.Name()].(*ssa.Global); ok {
							return VPtr{Global: g}, o.Type()
						}
					}
				}
			}
		}
		a := e.eval(n)
		switch p := a.v.(type) {
		case VPtr:
			return p, a.t.Underlying().(*types.Pointer).Elem()
		case VSlice:
			return VPtr{Obj: p.Obj}, nil
		case VIface:
			if p.Dyn != nil {
				if pp, ok := p.Val.(VPtr); ok {
					return pp, p.Dyn.Underlying().(*types.Pointer).Elem()
				}
			}
			return VPtr{}, nil
		}
		evalFail("modifies %s: not a pointer or slice", n.Name)
	case *ast.SelectorExpr:
		base, bt := e.evalLocOrValue(n.X)
		if bt == nil {
			evalFail("modifies %s: untyped base", exprText(n))
		}
		obj, index, _ := types.LookupFieldOrMethod(bt, true, e.pkg, n.Sel.Name)
		fld, ok := obj.(*types.Var)
		if !ok {
			evalFail("contract drift: no field %s in %s", n.Sel.Name, typeStr(bt))
		}
		cur := base
		ct := bt
		for _, ix := range index {
			if pt, ok := ct.Underlying().(*types.Pointer); ok {
				// deref embedded pointer
				v := e.st.loadPtr(cur)
				pp, ok2 := v.(VPtr)
				if !ok2 {
					evalFail("modifies path through non-pointer")
				}
				cur = pp
				ct = pt.Elem()
			}
			st := ct.Underlying().(*types.Struct)
			cur = VPtr{Obj: cur.Obj, Global: cur.Global, Path: append(append([]PathEl{}, cur.Path...), PathEl{Field: ix})}
			ct = st.Field(ix).Type()
		}
		_ = fld
		return cur, ct
	}
	evalFail("unsupported modifies expression %q", e.in)
	return VPtr{}, nil
}

// evalLocOrValue: for a selector base: pointer value -> location of pointee; otherwise location of the variable.
func (e *Env) evalLocOrValue(x ast.Expr) (VPtr, types.Type) {
	if id, ok := x.(*ast.Ident); ok {
		a := e.eval(id)
		if p, ok := a.v.(VPtr); ok {
			return p, a.t.Underlying().(*types.Pointer).Elem()
		}
		evalFail("modifies base %s is not a pointer", id.Name)
	}
	loc, t := e.evalLoc(x)
	// if the location holds a pointer, follow it
	if t != nil {
		if pt, ok := t.Underlying().(*types.Pointer); ok {
			v := e.st.loadPtr(loc)
			if pp, ok2 := v.(VPtr); ok2 {
				return pp, pt.Elem()
			}
		}
	}
	return loc, t
}

// bufView: contents of a bytes.Buffer (given as *bytes.Buffer, bytes.Buffer, or a struct embedding one,
// e.g. util.Buffer / *util.Buffer): byte memory, absolute offset of content byte 0, content length.
func (e *Env) bufView(a tv) (*ByteMem, *Term, *Term) {
	v, t := a.v, a.t
	for i := 0; i < 4; i++ {
		if t == nil {
			break
		}
		if pt, ok := t.Underlying().(*types.Pointer); ok {
			p, ok2 := v.(VPtr)
			if !ok2 || p.Obj <= 0 {
				evalFail("buffer expression is nil/unmaterialised in %q", e.in)
			}
			v, t = e.st.loadPtr(p), pt.Elem()
			continue
		}
		if isBytesBuffer(t) {
			sv := v.(VStruct)
			buf := sv.F[bufferFieldIdx(t, "buf")].(VSlice)
			off := sv.F[bufferFieldIdx(t, "off")].(VInt).T
			var mem *ByteMem = bmZeros
			if buf.Obj != 0 {
				mem = e.st.heap[buf.Obj].Mem
			}
			return mem, Add(buf.Off, off), Sub(buf.Len, off)
		}
		if st, ok := t.Underlying().(*types.Struct); ok && st.NumFields() > 0 && st.Field(0).Embedded() {
			v, t = v.(VStruct).F[0], st.Field(0).Type()
			continue
		}
		break
	}
	evalFail("not a bytes.Buffer in %q", e.in)
	return nil, nil, nil
}

// bufPtr: location of the bytes.Buffer struct denoted by an expression (same shapes as bufView).
func (e *Env) bufPtr(a tv) (VPtr, types.Type) {
	v, t := a.v, a.t
	var loc VPtr
	have := false
	for i := 0; i < 4; i++ {
		if pt, ok := t.Underlying().(*types.Pointer); ok {
			p, ok2 := v.(VPtr)
			if !ok2 || p.Obj <= 0 {
				evalFail("buffer expression is nil/unmaterialised in %q", e.in)
			}
			loc, have = p, true
			v, t = e.st.loadPtr(p), pt.Elem()
			continue
		}
		if isBytesBuffer(t) {
			if !have {
				evalFail("buffer expression is not addressable in %q", e.in)
			}
			return loc, t
		}
		if st, ok := t.Underlying().(*types.Struct); ok && st.NumFields() > 0 && st.Field(0).Embedded() && have {
			loc = VPtr{Obj: loc.Obj, Global: loc.Global, Path: append(append([]PathEl{}, loc.Path...), PathEl{Field: 0})}
			v, t = v.(VStruct).F[0], st.Field(0).Type()
			continue
		}
		break
	}
	evalFail("not a bytes.Buffer location in %q", e.in)
	return VPtr{}, nil
}

// bbytes_eq(buf, at, slice, soff, n): n content bytes of the buffer from position at equal slice[soff:soff+n].
// bzero(buf, from, to): content bytes in [from, to) are zero. Both are checked at a skolem index (use positively).
func (e *Env) bufBytesEq(name string, n *ast.CallExpr) tv {
	if e.negated {
		evalFail("range equality under negation/disjunction in %q", e.in)
	}
	if e.assuming {
		return e.bufBytesAssume(name, n)
	}
	mem, off, _ := e.bufView(e.eval(n.Args[0]))
	i := Fresh("skolem_b", BV(64))
	if name == "bzero" {
		from, to := e.intArg(n.Args[1]), e.intArg(n.Args[2])
		r := Implies(And(ULe(from, i), ULt(i, to)), Eq(mem.Read(Add(off, i)), Const(8, 0)))
		return tv{VBool{r}, types.Typ[types.Bool]}
	}
	at := e.intArg(n.Args[1])
	s, ok := e.eval(n.Args[2]).v.(VSlice)
	if !ok {
		evalFail("bbytes_eq: third argument is not a slice in %q", e.in)
	}
	so := e.intArg(n.Args[3])
	ln := e.intArg(n.Args[4])
	r := Implies(ULt(i, ln), Eq(mem.Read(Add(off, Add(at, i))), e.readByte(s, Add(so, i))))
	return tv{VBool{r}, types.Typ[types.Bool]}
}

// bufBytesAssume applies bbytes_eq / bzero constructively to the buffer's backing object.
func (e *Env) bufBytesAssume(name string, n *ast.CallExpr) tv {
	a := e.eval(n.Args[0])
	_, off, _ := e.bufView(a)
	loc, bt := e.bufPtr(a)
	sv := e.st.loadPtr(loc).(VStruct)
	buf := sv.F[bufferFieldIdx(bt, "buf")].(VSlice)
	if buf.Obj == 0 {
		return tv{VBool{True}, types.Typ[types.Bool]}
	}
	o := *e.st.heap[buf.Obj]
	if name == "bzero" {
		from, to := e.intArg(n.Args[1]), e.intArg(n.Args[2])
		cnt := Ite(And(e.guard, ULe(from, to)), Sub(to, from), Const(64, 0))
		o.Mem = o.Mem.Copy(Add(off, from), bmZeros, Const(64, 0), cnt)
	} else {
		at := e.intArg(n.Args[1])
		s, ok := e.eval(n.Args[2]).v.(VSlice)
		if !ok {
			evalFail("bbytes_eq: third argument is not a slice in %q", e.in)
		}
		so := e.intArg(n.Args[3])
		ln := Ite(e.guard, e.intArg(n.Args[4]), Const(64, 0))
		smem, soff, _, _ := e.ex.bytesOf(e.st, s)
		o.Mem = o.Mem.Copy(Add(off, at), smem, Add(soff, so), ln)
	}
	e.st.heap[buf.Obj] = &o
	return tv{VBool{True}, types.Typ[types.Bool]}
}

// ---------- elemsat: every element of a list is encoded at its offset ----------

// elemFact: an assumed elemsat(buf, base, xs, n, fam) - a statement about a snapshot of the buffer's contents.
type elemFact struct {
	mem   *ByteMem
	boff  *Term // offset of the slice in its backing object
	base  *Term
	seq   int // SeqMem id of the element sequence (facts carry over to sequences appended to it)
	n     *Term
	fam   string
	guard *Term
}

// elemsAt evaluates elemsat(buf, base, xs, n, fam): for every k < n the element xs[k] sits in buf at offset
// base + sum(xs, k): fam "tl": big-endian type code at +0 and total length at +2 (actions, instructions, hello
// elements); fam "l0": total length at +0 (buckets, flow-stats records). Assumed: recorded as a fact about the
// buffer contents at that moment (later appends keep the prefix, which the byte memory model knows). Proved: at a
// skolem index k, with every recorded fact about the same element list instantiated at k, together with the
// monotonicity of sum (sum(xs,k) + size(xs[k]) <= sum(xs,n) for k < n; sizes are non-negative and sums do not wrap).
func (e *Env) elemsAt(n *ast.CallExpr) *Term {
	if len(n.Args) != 5 {
		evalFail("elemsat(buf, base, xs, n, family) in %q", e.in)
	}
	bufv, ok := e.eval(n.Args[0]).v.(VSlice)
	if !ok {
		evalFail("elemsat: first argument is not a byte slice in %q", e.in)
	}
	base := e.intArg(n.Args[1])
	xa := e.eval(n.Args[2])
	xs, ok := xa.v.(VSlice)
	if !ok {
		evalFail("elemsat: third argument is not a slice in %q", e.in)
	}
	cnt := e.intArg(n.Args[3])
	fam := ""
	if bl, ok := n.Args[4].(*ast.BasicLit); ok {
		fam = strings.Trim(bl.Value, "\"")
	} else if id, ok := n.Args[4].(*ast.Ident); ok {
		fam = id.Name
	}
	hdrSpec := ""
	if strings.HasPrefix(fam, "h32:") {
		hdrSpec = fam[4:]
		if e.ex.L.Contracts.Specs[hdrSpec] == nil {
			evalFail("elemsat: unknown header spec %q in %q", hdrSpec, e.in)
		}
	} else if fam != "tl" && fam != "l0" && fam != "t" {
		evalFail("elemsat: unknown family %q in %q", fam, e.in)
	}
	if e.negated {
		evalFail("elemsat in hypothesis position is not supported in %q", e.in)
	}
	if xs.Obj == 0 {
		return True // nil list: no elements
	}
	so := e.st.heap[xs.Obj]
	if so == nil || so.Kind != okSeq || !xs.Off.IsConst() || xs.Off.Val != 0 {
		evalFail("elemsat over a re-sliced or non-sequence list in %q", e.in)
	}
	et := xa.t.Underlying().(*types.Slice).Elem()
	var mem *ByteMem = bmZeros
	if bufv.Obj != 0 {
		bo := e.st.heap[bufv.Obj]
		if bo == nil || bo.Kind != okBytes {
			evalFail("elemsat: buffer is not a byte object in %q", e.in)
		}
		mem = bo.Mem
	}
	if e.assuming {
		e.st.elemFacts = append(append([]elemFact{}, e.st.elemFacts...), elemFact{mem: mem, boff: bufv.Off, base: base, seq: so.Seq.id, n: cnt, fam: fam, guard: e.guard})
		return True
	}
	k := Fresh("elemsat_k", BV(64))
	if e.skolems != nil {
		*e.skolems = append(*e.skolems, k)
	}
	sumK := e.sumTerm(xs, et, k)
	read16 := func(m *ByteMem, at *Term) *Term {
		return Concat(m.Read(at), m.Read(Add(at, Const(64, 1))))
	}
	at := func(m *ByteMem, boff, b *Term) func(Value) *Term {
		return func(ev Value) *Term {
			pos := Add(boff, Add(b, sumK))
			sz := e.specApply("size", e.ex.L.Contracts.Specs["size"], []tv{{ev, et}})
			sz64 := ZExt(sz.v.(VInt).T, 64)
			szT := Extract(15, 0, sz64)
			if fam == "l0" {
				// the element holds at least its own length field
				return And(Eq(read16(m, pos), szT), ULe(Const(64, 2), sz64))
			}
			if hdrSpec != "" {
				// the element's first four bytes are the spec function's 32-bit header word
				h := e.specApply(hdrSpec, e.ex.L.Contracts.Specs[hdrSpec], []tv{{ev, et}})
				hT := Extract(31, 0, ZExt(h.v.(VInt).T, 64))
				return And(Eq(Concat(read16(m, pos), read16(m, Add(pos, Const(64, 2)))), hT), ULe(Const(64, 4), sz64))
			}
			tc := e.specApply("typecode", e.ex.L.Contracts.Specs["typecode"], []tv{{ev, et}})
			tcT := Extract(15, 0, ZExt(tc.v.(VInt).T, 64))
			if fam == "t" {
				// decoder side: the kind of element k is the one named at its offset; its size is what the cursor advanced by
				return And(Eq(read16(m, pos), tcT), ULe(Const(64, 4), sz64))
			}
			return And(Eq(read16(m, pos), tcT), Eq(read16(m, Add(pos, Const(64, 2))), szT), ULe(Const(64, 4), sz64))
		}
	}
	goal := e.seqMapAt(so, k, len(so.Seq.entries)-1, at(mem, bufv.Off, base))
	hyp := True
	for _, f := range e.st.elemFacts {
		if f.fam != fam {
			continue
		}
		// the fact speaks about this sequence, or about one it was appended to: below the parent's length the
		// elements (and, by sumTerm's prefix axioms, the partial sums) are the parent's
		below := True
		found := false
		for q := so.Seq; q != nil; q = q.parent {
			if q.id == f.seq {
				found = true
				break
			}
			if q.parent == nil || q.parentLen == nil {
				break
			}
			below = And(below, ULt(k, q.parentLen), ULe(f.n, q.parentLen))
		}
		if !found {
			continue
		}
		sumN := e.sumTerm(xs, et, f.n)
		inst := e.seqMapAt(so, k, len(so.Seq.entries)-1, func(ev Value) *Term {
			sz := e.specApply("size", e.ex.L.Contracts.Specs["size"], []tv{{ev, et}})
			szT := ZExt(sz.v.(VInt).T, 64)
			return And(at(f.mem, f.boff, f.base)(ev), ULe(Add(sumK, szT), sumN), ULe(szT, Const(64, 1<<50)))
		})
		hyp = And(hyp, Implies(And(f.guard, ULt(k, f.n), below), inst))
	}
	return Implies(And(ULt(k, cnt), hyp), goal)
}

// allSpec evaluates allspec(xs, n, "name", v): for every k < n the integer spec function name(xs[k]) equals v.
// Assumed, it is recorded on the state (like elemsat); proved, the index is skolemised and the recorded facts of
// the same spec about this sequence or one it was appended to are instantiated at the skolem.
func (e *Env) allSpec(n *ast.CallExpr) *Term {
	if len(n.Args) != 4 {
		evalFail("allspec(xs, n, \"spec\", v) in %q", e.in)
	}
	xa := e.eval(n.Args[0])
	xs, ok := xa.v.(VSlice)
	if !ok {
		evalFail("allspec: first argument is not a slice in %q", e.in)
	}
	cnt := e.intArg(n.Args[1])
	name := ""
	if bl, ok := n.Args[2].(*ast.BasicLit); ok {
		name = strings.Trim(bl.Value, "\"")
	}
	specs := e.ex.L.Contracts.Specs[name]
	if len(specs) == 0 {
		evalFail("allspec: unknown spec %q in %q", name, e.in)
	}
	val := e.intArg(n.Args[3])
	if e.negated {
		evalFail("allspec in hypothesis position is not supported in %q", e.in)
	}
	if xs.Obj == 0 {
		return True
	}
	so := e.st.heap[xs.Obj]
	if so == nil || so.Kind != okSeq || !xs.Off.IsConst() || xs.Off.Val != 0 {
		evalFail("allspec over a re-sliced or non-sequence list in %q", e.in)
	}
	et := xa.t.Underlying().(*types.Slice).Elem()
	fam := "spec:" + name
	if e.assuming {
		e.st.elemFacts = append(append([]elemFact{}, e.st.elemFacts...), elemFact{base: val, seq: so.Seq.id, n: cnt, fam: fam, guard: e.guard})
		return True
	}
	k := Fresh("elemsat_k", BV(64))
	if e.skolems != nil {
		*e.skolems = append(*e.skolems, k)
	}
	at := func(v *Term) func(Value) *Term {
		return func(ev Value) *Term {
			r := e.specApply(name, specs, []tv{{ev, et}})
			iv, ok := r.v.(VInt)
			if !ok {
				evalFail("allspec: %s is not an integer spec in %q", name, e.in)
			}
			return Eq(SExt(iv.T, 64), v)
		}
	}
	goal := e.seqMapAt(so, k, len(so.Seq.entries)-1, at(val))
	hyp := True
	for _, f := range e.st.elemFacts {
		if f.fam != fam {
			continue
		}
		below := True
		found := false
		for q := so.Seq; q != nil; q = q.parent {
			if q.id == f.seq {
				found = true
				break
			}
			if q.parent == nil || q.parentLen == nil {
				break
			}
			below = And(below, ULt(k, q.parentLen), ULe(f.n, q.parentLen))
		}
		if !found {
			continue
		}
		hyp = And(hyp, Implies(And(f.guard, ULt(k, f.n), below), e.seqMapAt(so, k, len(so.Seq.entries)-1, at(f.base))))
	}
	return Implies(And(ULt(k, cnt), hyp), goal)
}

// seqMapAt: f applied to the element at symbolic index k, by cases over the stored entries, then the base.
func (e *Env) seqMapAt(o *Object, k *Term, upto int, f func(Value) *Term) *Term {
	q := o.Seq
	if upto >= 0 {
		en := q.entries[upto]
		return Ite(Eq(en.idx, k), f(en.val), e.seqMapAt(o, k, upto-1, f))
	}
	if q.zero {
		return f(zeroValue(q.elemT))
	}
	// symbolic elements already materialised at other index terms are the same element when the indices are equal
	cur := e.st.heap[o.ID]
	memo := append([]seqEntry{}, cur.Seq.memo...)
	res := f(e.st.seqReadFrom(cur, k, -1))
	for _, m := range memo {
		if m.idx == k {
			continue
		}
		// elements materialised at the skolem index of another universal clause need no case of their own:
		// leaving the case out only forgets that they might be the same element (fewer facts, still sound)
		if m.idx.Op == "var" && (strings.HasPrefix(m.idx.Name, "elemsat_k") || (strings.HasPrefix(m.idx.Name, "all") && strings.Contains(m.idx.Name, "_k"))) {
			continue
		}
		res = Ite(Eq(m.idx, k), f(m.val), res)
	}
	return res
}
