package main

// Symbolic values, heap objects and byte/sequence memories.

import (
	"fmt"
	"go/types"
	"os"
	"strings"

	"golang.org/x/tools/go/ssa"
)

type Value interface{}

type VInt struct{ T *Term }
type VBool struct{ T *Term }
type VStr struct {
	Lit *string
	ID  *Term // BV64 identity for symbolic strings
}
type VStruct struct{ F []Value }
type VArray struct{ E []Value }

type PathEl struct {
	Field int   // >=0: struct field
	Index *Term // != nil: array element index (BV64)
}

// VPtr: Obj==0 is the nil pointer. Nil (Bool term) non-nil means "possibly nil".
type VPtr struct {
	Obj  int
	Path []PathEl
	Nil  *Term
	// Global: pointer to a package-level variable
	Global *ssa.Global
}

// VSlice: Obj==0 means no backing array (nil slice or zero-length).
type VSlice struct {
	Obj           int
	Off, Len, Cap *Term // BV64; Off is offset of element 0 in the backing object; Cap is capacity from Off
	Nil           *Term // Bool: slice == nil
}

// VIface: Dyn != nil => dynamic type known and Val is the payload.
// Dyn == nil && ID != nil => unknown dynamic value identified by ID (BV64), Nil says whether it is nil.
type VIface struct {
	Dyn types.Type
	Val Value
	ID  *Term
	Nil *Term
}
type VTuple struct{ E []Value }
type VFunc struct {
	Fn   *ssa.Function
	Bind []Value
}
type VOpaque struct {
	T  types.Type
	ID *Term
}

var nilIface = VIface{Nil: True}

type ObjKind int

const (
	okCell ObjKind = iota
	okBytes
	okSeq
)

type Object struct {
	ID    int
	Kind  ObjKind
	Val   Value
	Mem   *ByteMem
	Seq   *SeqMem
	ElemT types.Type
	Len   *Term      // allocation length for bytes/seq objects (BV64)
	Fresh bool       // allocated during the function under verification
	Input bool       // (part of) a caller-supplied input buffer (ownership checks)
	Tag   string     // description
	T     types.Type // static type of a cell's value when known
}

// ---------- byte memories ----------

type bmKind int

const (
	bmBase bmKind = iota
	bmZero
	bmStore
	bmCopy
)

type ByteMem struct {
	kind   bmKind
	arr    *Term // base: SMT array; contents = arr[i]
	prev   *ByteMem
	idx    *Term
	val    *Term
	dst, n *Term
	src    *ByteMem
	srcOff *Term
	depth  int
}

func bmBaseOf(arr *Term) *ByteMem { return &ByteMem{kind: bmBase, arr: arr} }

var bmZeros = &ByteMem{kind: bmZero}

func (m *ByteMem) Store(idx, val *Term) *ByteMem {
	idx = simpUnder(idx)
	// overwrite of the immediately preceding store to the same index
	if m.kind == bmStore && m.idx == idx {
		return &ByteMem{kind: bmStore, prev: m.prev, idx: idx, val: val, depth: m.depth}
	}
	return &ByteMem{kind: bmStore, prev: m, idx: idx, val: val, depth: m.depth + 1}
}

func (m *ByteMem) Copy(dst *Term, src *ByteMem, srcOff, n *Term) *ByteMem {
	dst, srcOff, n = simpUnder(dst), simpUnder(srcOff), simpUnder(n)
	if n.IsConst() && n.Val == 0 {
		return m
	}
	if n.IsConst() && n.Val <= 64 {
		// small constant copy: expand into stores (reads happen on the pre-state of src)
		vals := make([]*Term, n.Val)
		for i := uint64(0); i < n.Val; i++ {
			vals[i] = src.Read(Add(srcOff, Const(64, i)))
		}
		r := m
		for i := uint64(0); i < n.Val; i++ {
			r = r.Store(Add(dst, Const(64, i)), vals[i])
		}
		return r
	}
	return &ByteMem{kind: bmCopy, prev: m, dst: dst, n: n, src: src, srcOff: srcOff, depth: m.depth + 1}
}

func (m *ByteMem) Read(i *Term) *Term {
	i = simpUnder(i)
	switch m.kind {
	case bmBase:
		return Select(m.arr, i)
	case bmZero:
		return Const(8, 0)
	case bmStore:
		c := decideUnder(Eq(m.idx, i))
		if c.IsTrue() {
			return m.val
		}
		if c.IsFalse() {
			return m.prev.Read(i)
		}
		return Ite(c, m.val, m.prev.Read(i))
	case bmCopy:
		if i.IsConst() && m.dst.IsConst() && i.Val < m.dst.Val {
			// below the copied range (lengths are physically bounded far below 2^64, so i-dst cannot wrap into it)
			return m.prev.Read(i)
		}
		if curPC != nil {
			if d2, n2 := simpUnder(m.dst), simpUnder(m.n); d2 != m.dst || n2 != m.n {
				m2 := *m
				m2.dst, m2.n = d2, n2
				m = &m2
			}
		}
		if belowUnder(i, m.dst, m.n) {
			return m.prev.Read(i)
		}
		in := decideUnder(ULt(Sub(i, m.dst), m.n))
		if in.IsTrue() {
			return m.src.Read(Add(m.srcOff, Sub(i, m.dst)))
		}
		if in.IsFalse() {
			return m.prev.Read(i)
		}
		if dbgReads > 0 {
			dbgReads--
			b := boundsOf(curPC)
			x, y := Sub(i, m.dst), m.n
			for _, v := range Vars(y) {
				fmt.Fprintf(os.Stderr, "   var %s in [%d,%d]\n", v.Name, b.rng(v).lo, b.rng(v).hi)
			}
			for q := curPC; q != nil; q = q.prev {
				if strings.Contains(q.t.String(), os.Getenv("GOVC_DEBUG_READS")) {
					fmt.Fprintf(os.Stderr, "   fact %s\n", trunc(q.t.String(), 200))
				}
			}
			fmt.Fprintf(os.Stderr, "   simp(n)=%s\n", trunc(simpUnder(y).String(), 300))
			fmt.Fprintf(os.Stderr, "UNDECIDED copy range: i=%s dst=%s\n   i-dst=%s in [%d,%d]\n   n=%s in [%d,%d]\n", trunc(i.String(), 300), trunc(m.dst.String(), 200), trunc(x.String(), 300), b.rng(x).lo, b.rng(x).hi, trunc(y.String(), 300), b.rng(y).lo, b.rng(y).hi)
		}
		return Ite(in, m.src.Read(Add(m.srcOff, Sub(i, m.dst))), m.prev.Read(i))
	}
	panic("bad bytemem")
}

// ---------- element sequences (non-byte slices' backing arrays) ----------

type seqEntry struct {
	idx *Term
	val Value
}

type SeqMem struct {
	id        int
	elemT     types.Type
	zero      bool // unknown entries are the zero value (make); else symbolic (materialised on demand)
	name      string
	entries   []seqEntry // stores; later entries shadow earlier ones
	memo      []seqEntry // materialised symbolic elements of the base
	parent    *SeqMem    // append: elements below parentLen are the parent's
	parentLen *Term
	allWF     map[string]*Term // predicate name -> bound: elements with index < bound satisfy the predicate (assumed universal facts, instantiated at reads)
}

// ---------- helper functions on types ----------

func intInfo(t types.Type) (w int, signed bool, ok bool) {
	b, isb := t.Underlying().(*types.Basic)
	if !isb {
		return 0, false, false
	}
	switch b.Kind() {
	case types.Int8:
		return 8, true, true
	case types.Int16:
		return 16, true, true
	case types.Int32:
		return 32, true, true
	case types.Int64, types.Int:
		return 64, true, true
	case types.Uint8:
		return 8, false, true
	case types.Uint16:
		return 16, false, true
	case types.Uint32:
		return 32, false, true
	case types.Uint64, types.Uint, types.Uintptr:
		return 64, false, true
	case types.UntypedInt, types.UntypedRune:
		return 64, true, true
	}
	return 0, false, false
}

func isBool(t types.Type) bool {
	b, ok := t.Underlying().(*types.Basic)
	return ok && (b.Kind() == types.Bool || b.Kind() == types.UntypedBool)
}

func isString(t types.Type) bool {
	b, ok := t.Underlying().(*types.Basic)
	return ok && (b.Kind() == types.String || b.Kind() == types.UntypedString)
}

func isByteSlice(t types.Type) bool {
	s, ok := t.Underlying().(*types.Slice)
	if !ok {
		return false
	}
	return isByte(s.Elem())
}

func isByte(t types.Type) bool {
	b, ok := t.Underlying().(*types.Basic)
	return ok && (b.Kind() == types.Uint8)
}

func typeStr(t types.Type) string {
	return types.TypeString(t, func(p *types.Package) string { return p.Name() })
}

// zeroValue builds the Go zero value of a type.
func zeroValue(t types.Type) Value {
	switch u := t.Underlying().(type) {
	case *types.Basic:
		if w, _, ok := intInfo(u); ok {
			return VInt{Const(w, 0)}
		}
		if isBool(u) {
			return VBool{False}
		}
		if isString(u) {
			s := ""
			return VStr{Lit: &s}
		}
		if u.Kind() == types.UnsafePointer {
			return VPtr{Nil: True}
		}
		if u.Kind() == types.UntypedNil {
			return VPtr{Nil: True}
		}
		return VOpaque{T: t, ID: Const(64, 0)}
	case *types.Struct:
		f := make([]Value, u.NumFields())
		for i := range f {
			f[i] = zeroValue(u.Field(i).Type())
		}
		return VStruct{f}
	case *types.Array:
		n := int(u.Len())
		e := make([]Value, n)
		z := zeroValue(u.Elem())
		for i := range e {
			e[i] = z
		}
		return VArray{e}
	case *types.Pointer:
		return VPtr{Nil: True}
	case *types.Slice:
		return VSlice{Off: Const(64, 0), Len: Const(64, 0), Cap: Const(64, 0), Nil: True}
	case *types.Interface:
		return nilIface
	case *types.Signature:
		return VFunc{}
	}
	return VOpaque{T: t, ID: Const(64, 0)}
}

func describe(v Value) string {
	switch x := v.(type) {
	case VInt:
		return x.T.String()
	case VBool:
		return x.T.String()
	case VStr:
		if x.Lit != nil {
			return fmt.Sprintf("%q", *x.Lit)
		}
		return "str:" + x.ID.String()
	case VStruct:
		var p []string
		for _, f := range x.F {
			p = append(p, describe(f))
		}
		return "{" + strings.Join(p, ", ") + "}"
	case VArray:
		return fmt.Sprintf("[%d]array", len(x.E))
	case VPtr:
		if x.Global != nil {
			return "&" + x.Global.Name()
		}
		return fmt.Sprintf("ptr(obj%d%v)", x.Obj, x.Path)
	case VSlice:
		return fmt.Sprintf("slice(obj%d off=%s len=%s)", x.Obj, x.Off, x.Len)
	case VIface:
		if x.Dyn != nil {
			return "iface(" + typeStr(x.Dyn) + ":" + describe(x.Val) + ")"
		}
		if x.ID == nil {
			return "iface(nil)"
		}
		return "iface(?" + x.ID.String() + ")"
	case VTuple:
		var p []string
		for _, f := range x.E {
			p = append(p, describe(f))
		}
		return "(" + strings.Join(p, ", ") + ")"
	case VFunc:
		if x.Fn == nil {
			return "func(nil)"
		}
		return "func(" + x.Fn.String() + ")"
	case VOpaque:
		return "opaque(" + typeStr(x.T) + ")"
	case nil:
		return "<nil>"
	}
	return fmt.Sprintf("%T", v)
}

var dbgReads = func() int {
	if os.Getenv("GOVC_DEBUG_READS") != "" {
		return 40
	}
	return 0
}()
