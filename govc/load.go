package main

// Loading /repo (with -tags=verif) into go/ssa, loop detection, stable obligation naming.

import (
	"bytes"
	"fmt"
	"go/ast"
	"go/printer"
	"go/token"
	"go/types"
	"os"
	"sort"
	"strings"

	"golang.org/x/tools/go/ast/astutil"
	"golang.org/x/tools/go/packages"
	"golang.org/x/tools/go/ssa"
	"golang.org/x/tools/go/ssa/ssautil"
)

const repoModule = "github.com/contiv/libOpenflow"

type Loaded struct {
	Fset      *token.FileSet
	Pkgs      []*packages.Package
	Prog      *ssa.Program
	SSAPkgs   map[string]*ssa.Package // by package name (repo packages only)
	PkgByPath map[string]*packages.Package
	Contracts *ContractDB
	RepoDir   string

	loopCache   map[*ssa.Function]map[*ssa.BasicBlock]*loopInfo
	detailCache map[*ssa.Function]map[ssa.Instruction]string
	fileOf      map[*token.File]*ast.File
	AllFuncs    map[*ssa.Function]bool
}

func loadRepo(dir string) (*Loaded, error) {
	cfg := &packages.Config{Mode: packages.LoadAllSyntax, Dir: dir, BuildFlags: []string{"-tags=verif"},
		Env: append(os.Environ(), "GOFLAGS=-mod=mod", "GOPROXY=off", "GOSUMDB=off", "GOTOOLCHAIN=local")}
	pkgs, err := packages.Load(cfg, "./...")
	if err != nil {
		return nil, err
	}
	nerr := 0
	packages.Visit(pkgs, nil, func(p *packages.Package) {
		for _, e := range p.Errors {
			if strings.HasPrefix(p.PkgPath, repoModule) {
				fmt.Fprintln(os.Stderr, "load error:", e)
				nerr++
			}
		}
	})
	if nerr > 0 {
		return nil, fmt.Errorf("%d load errors in %s", nerr, dir)
	}
	prog, _ := ssautil.AllPackages(pkgs, ssa.InstantiateGenerics|ssa.GlobalDebug)
	prog.Build()
	L := &Loaded{Fset: pkgs[0].Fset, Pkgs: pkgs, Prog: prog, SSAPkgs: map[string]*ssa.Package{}, PkgByPath: map[string]*packages.Package{},
		RepoDir: dir, loopCache: map[*ssa.Function]map[*ssa.BasicBlock]*loopInfo{}, detailCache: map[*ssa.Function]map[ssa.Instruction]string{},
		fileOf: map[*token.File]*ast.File{}}
	for _, p := range pkgs {
		if !strings.HasPrefix(p.PkgPath, repoModule) {
			continue
		}
		L.PkgByPath[p.PkgPath] = p
		sp := prog.Package(p.Types)
		if sp != nil {
			L.SSAPkgs[p.Name] = sp
		}
		for _, f := range p.Syntax {
			L.fileOf[L.Fset.File(f.Pos())] = f
		}
	}
	L.AllFuncs = ssautil.AllFunctions(prog)
	return L, nil
}

func (L *Loaded) isRepoFunc(fn *ssa.Function) bool {
	if fn == nil {
		return false
	}
	p := fn.Pkg
	if p == nil && fn.Origin() != nil {
		p = fn.Origin().Pkg
	}
	if p == nil && fn.Parent() != nil {
		return L.isRepoFunc(fn.Parent())
	}
	if p == nil && fn.Synthetic != "" && fn.Signature.Recv() != nil {
		// wrapper of a promoted method: belongs to the package of the receiver's type
		t := fn.Signature.Recv().Type()
		if pt, ok := t.(*types.Pointer); ok {
			t = pt.Elem()
		}
		if nt, ok := t.(*types.Named); ok && nt.Obj().Pkg() != nil {
			return strings.HasPrefix(nt.Obj().Pkg().Path(), repoModule)
		}
	}
	return p != nil && strings.HasPrefix(p.Pkg.Path(), repoModule)
}

// funcKey: stable, short, human-readable function name: pkg.(*T).M / pkg.F / pkg.F$1
func funcKey(fn *ssa.Function) string {
	s := fn.String()
	s = strings.ReplaceAll(s, repoModule+"/", "")
	s = strings.ReplaceAll(s, repoModule, "libOpenflow")
	// (*protocol.T).M -> protocol.(*T).M
	if strings.HasPrefix(s, "(") {
		end := strings.Index(s, ")")
		inner := s[1:end]
		star := ""
		if strings.HasPrefix(inner, "*") {
			star = "*"
			inner = inner[1:]
		}
		if dot := strings.LastIndex(inner, "."); dot >= 0 {
			s = inner[:dot] + ".(" + star + inner[dot+1:] + ")" + s[end+1:]
		}
	}
	return s
}

func shortFuncName(fn *ssa.Function) string { return funcKey(fn) }

// ---------- loops ----------

func (L *Loaded) loops(fn *ssa.Function) map[*ssa.BasicBlock]*loopInfo {
	if m, ok := L.loopCache[fn]; ok {
		return m
	}
	m := map[*ssa.BasicBlock]*loopInfo{}
	L.loopCache[fn] = m
	if len(fn.Blocks) == 0 {
		return m
	}
	// back edge: succ dominates pred
	for _, b := range fn.Blocks {
		for _, s := range b.Succs {
			if s.Dominates(b) {
				li := m[s]
				if li == nil {
					li = &loopInfo{header: s, blocks: map[*ssa.BasicBlock]bool{s: true}}
					m[s] = li
				}
				// natural loop of back edge b->s
				stack := []*ssa.BasicBlock{b}
				for len(stack) > 0 {
					x := stack[len(stack)-1]
					stack = stack[:len(stack)-1]
					if li.blocks[x] {
						continue
					}
					li.blocks[x] = true
					stack = append(stack, x.Preds...)
				}
			}
		}
	}
	var hs []*ssa.BasicBlock
	for h := range m {
		hs = append(hs, h)
	}
	sort.Slice(hs, func(i, j int) bool { return hs[i].Index < hs[j].Index })
	for i, h := range hs {
		li := m[h]
		li.ordinal = i + 1
		for _, in := range h.Instrs {
			p, ok := in.(*ssa.Phi)
			if !ok {
				break
			}
			if p.Comment == "rangeindex" {
				li.rangeIx = p
				// find: t = rangeindex + 1 ; c = t < len ; if c
				for _, in2 := range h.Instrs {
					if bo, ok := in2.(*ssa.BinOp); ok && bo.Op == token.LSS {
						li.rangeLn = bo.Y
					}
				}
			}
		}
	}
	return m
}

// ---------- stable obligation details ----------

func (L *Loaded) instrDetail(in ssa.Instruction) string {
	fn := in.Parent()
	m, ok := L.detailCache[fn]
	if !ok {
		m = map[ssa.Instruction]string{}
		L.detailCache[fn] = m
		cnt := map[string]int{}
		for _, b := range fn.Blocks {
			for _, i2 := range b.Instrs {
				d := L.rawDetail(i2)
				if d == "" {
					continue
				}
				cnt[d]++
				m[i2] = fmt.Sprintf("%s#%d", d, cnt[d])
			}
		}
	}
	return m[in]
}

func (L *Loaded) rawDetail(in ssa.Instruction) string {
	switch in.(type) {
	case *ssa.IndexAddr, *ssa.Index, *ssa.Slice, *ssa.FieldAddr, *ssa.UnOp, *ssa.Store, *ssa.TypeAssert, *ssa.Call,
		*ssa.BinOp, *ssa.MakeSlice, *ssa.Panic, *ssa.Lookup, *ssa.Field:
	default:
		return ""
	}
	pos := in.Pos()
	if !pos.IsValid() {
		s := in.String()
		if v, ok := in.(ssa.Value); ok {
			s = v.Name() + "=" + s
		}
		return "ssa:" + compact(stripRegs(s))
	}
	tf := L.Fset.File(pos)
	f := L.fileOf[tf]
	if f == nil {
		return "ssa:" + compact(stripRegs(in.String()))
	}
	path, _ := astutil.PathEnclosingInterval(f, pos, pos)
	var want func(n ast.Node) bool
	switch in.(type) {
	case *ssa.IndexAddr, *ssa.Index, *ssa.Lookup:
		want = func(n ast.Node) bool { _, ok := n.(*ast.IndexExpr); return ok }
	case *ssa.Slice:
		want = func(n ast.Node) bool { _, ok := n.(*ast.SliceExpr); return ok }
	case *ssa.FieldAddr, *ssa.Field:
		want = func(n ast.Node) bool { _, ok := n.(*ast.SelectorExpr); return ok }
	case *ssa.TypeAssert:
		want = func(n ast.Node) bool { _, ok := n.(*ast.TypeAssertExpr); return ok }
	case *ssa.Call, *ssa.MakeSlice, *ssa.Panic:
		want = func(n ast.Node) bool { _, ok := n.(*ast.CallExpr); return ok }
	case *ssa.BinOp:
		want = func(n ast.Node) bool {
			switch n.(type) {
			case *ast.BinaryExpr, *ast.AssignStmt, *ast.IncDecStmt:
				return true
			}
			return false
		}
	default:
		want = func(n ast.Node) bool {
			switch n.(type) {
			case *ast.StarExpr, *ast.SelectorExpr, *ast.AssignStmt, *ast.IndexExpr, *ast.UnaryExpr, *ast.RangeStmt:
				return true
			}
			return false
		}
	}
	for _, n := range path {
		if _, isFile := n.(*ast.File); isFile {
			break
		}
		if want(n) {
			if rs, ok := n.(*ast.RangeStmt); ok {
				return "range " + L.nodeText(rs.X)
			}
			return L.nodeText(n)
		}
	}
	if len(path) > 0 {
		if _, isFile := path[0].(*ast.File); !isFile {
			t := L.nodeText(path[0])
			if len(t) < 80 {
				return t
			}
		}
	}
	return "ssa:" + compact(stripRegs(in.String()))
}

func stripRegs(s string) string { return s }

func (L *Loaded) nodeText(n ast.Node) string {
	var buf bytes.Buffer
	printer.Fprint(&buf, L.Fset, n)
	return compact(buf.String())
}

func compact(s string) string {
	s = strings.Join(strings.Fields(s), " ")
	if len(s) > 90 {
		s = s[:90] + "…"
	}
	return s
}

// ---------- function lookup ----------

// findFunc resolves "Name", "(*T).M", "(T).M", "Name$1", "Name[uint32,int]" in the given package.
func (L *Loaded) findFunc(pkgName, ref string) (*ssa.Function, error) {
	sp := L.SSAPkgs[pkgName]
	if sp == nil {
		return nil, fmt.Errorf("no package %s", pkgName)
	}
	closure := ""
	if i := strings.Index(ref, "$"); i >= 0 {
		closure = ref[i:]
		ref = ref[:i]
	}
	targs := ""
	if i := strings.Index(ref, "["); i >= 0 && strings.HasSuffix(ref, "]") {
		targs = ref[i+1 : len(ref)-1]
		ref = ref[:i]
	}
	var fn *ssa.Function
	if strings.HasPrefix(ref, "(") {
		end := strings.Index(ref, ")")
		if end < 0 || len(ref) < end+3 {
			return nil, fmt.Errorf("bad method ref %q", ref)
		}
		recv := ref[1:end]
		mname := ref[end+2:]
		ptr := strings.HasPrefix(recv, "*")
		recv = strings.TrimPrefix(recv, "*")
		obj := sp.Pkg.Scope().Lookup(recv)
		if obj == nil {
			return nil, fmt.Errorf("no type %s.%s", pkgName, recv)
		}
		var t types.Type = obj.Type()
		if ptr {
			t = types.NewPointer(t)
		}
		sel := L.Prog.MethodSets.MethodSet(t).Lookup(sp.Pkg, mname)
		if sel == nil {
			return nil, fmt.Errorf("no method %s on %s", mname, typeStr(t))
		}
		fn = L.Prog.MethodValue(sel)
	} else {
		fn = sp.Func(ref)
		if fn == nil {
			return nil, fmt.Errorf("no function %s.%s", pkgName, ref)
		}
	}
	if targs != "" {
		want := strings.ReplaceAll(targs, " ", "")
		var found *ssa.Function
		for f := range L.AllFuncs {
			if f.Origin() == fn {
				var ts []string
				for _, ta := range f.TypeArgs() {
					ts = append(ts, typeStr(ta))
				}
				if strings.ReplaceAll(strings.Join(ts, ","), " ", "") == want {
					found = f
				}
			}
		}
		if found == nil {
			return nil, fmt.Errorf("no instantiation %s[%s]", ref, targs)
		}
		fn = found
	}
	if closure != "" {
		var idx int
		fmt.Sscanf(closure, "$%d", &idx)
		if idx < 1 || idx > len(fn.AnonFuncs) {
			return nil, fmt.Errorf("no closure %s%s", ref, closure)
		}
		fn = fn.AnonFuncs[idx-1]
	}
	return fn, nil
}
