package main

import "os"

// Interval reasoning under the current path condition. Reads from layered byte memories compare an index against
// copied ranges whose positions are symbolic (a header of symbolic length in front of a payload); without bounds
// every such comparison becomes an if-then-else in the term and the solver has to rediscover, obligation by
// obligation, that lengths are small. curPC is the path condition of the path being executed; a comparison
// that the unsigned intervals of its operands decide is replaced by its truth value. Sound because every term
// built on a path is only ever used under that path's condition (obligation hypotheses contain it).

var curPC *PC

type ival struct {
	lo, hi uint64
}

type boundsTab struct {
	subst map[*Term]*Term    // linear equalities of the path, solved for one atom each (triangular: definitions never mention a defined atom)
	rel   []relFact          // comparisons between two non-constant terms: re-applied when later facts tighten either side
	u     map[*Term]ival     // unsigned interval
	s     map[*Term][2]int64 // signed lower / upper bound facts (for 64-bit ints)
}

type relFact struct {
	t   *Term
	pos bool
}

var pcBounds = map[*PC]*boundsTab{}

func boundsOf(p *PC) *boundsTab {
	if p == nil {
		return &boundsTab{u: map[*Term]ival{}, s: map[*Term][2]int64{}, subst: map[*Term]*Term{}}
	}
	if b, ok := pcBounds[p]; ok {
		return b
	}
	// nearest cached ancestor
	var chain []*PC
	q := p
	var base *boundsTab
	for q != nil {
		if b, ok := pcBounds[q]; ok {
			base = b
			break
		}
		chain = append(chain, q)
		q = q.prev
	}
	nb := &boundsTab{u: map[*Term]ival{}, s: map[*Term][2]int64{}, rel: []relFact{}, subst: map[*Term]*Term{}}
	if base != nil {
		for k, v := range base.subst {
			nb.subst[k] = v
		}
		for k, v := range base.u {
			nb.u[k] = v
		}
		for k, v := range base.s {
			nb.s[k] = v
		}
	}
	if base != nil {
		nb.rel = append(nb.rel, base.rel...)
	}
	for i := len(chain) - 1; i >= 0; i-- {
		nb.fact(chain[i].t, true)
	}
	for round := 0; round < 2; round++ {
		rel := nb.rel
		nb.rel = nil
		for _, r := range rel {
			nb.fact(r.t, r.pos)
		}
		nb.rel = rel
	}
	if len(pcBounds) > 3000 {
		pcBounds = map[*PC]*boundsTab{}
	}
	pcBounds[p] = nb
	return nb
}

func (b *boundsTab) setHi(t *Term, hi uint64) {
	if t.S.K != SBV || t.IsConst() {
		return
	}
	iv, ok := b.u[t]
	if !ok {
		iv = ival{0, mask(t.S.W)}
	}
	if hi < iv.hi {
		iv.hi = hi
	}
	b.u[t] = iv
	if t.Op == "zext" {
		b.setHi(t.Args[0], hi)
	}
	if t.Op == "bvadd" || t.Op == "bvsub" || t.Op == "bvmul" {
		b.sumHi(t, hi)
	}
}

// sumHi: t = k1*a1 + ... + kn*an + c (small positive coefficients, no wrap-around possible given the atoms' known
// upper bounds) is at most hi, so each atom is at most (hi - c - the others' lower bounds) / ki.
func (b *boundsTab) sumHi(t *Term, hi uint64) {
	lf := &linForm{coef: map[*Term]uint64{}}
	lf.add(t, 1)
	w := t.S.W
	c := lf.c & mask(w)
	if lf.nodes > 400 || len(lf.atoms) == 0 || len(lf.atoms) > 16 || w < 16 {
		return
	}
	limit := mask(w) >> 2
	if c > limit || hi > limit {
		return
	}
	total := c
	los := make([]uint64, len(lf.atoms))
	for i, a := range lf.atoms {
		k := lf.coef[a] & mask(w)
		r := b.rngD(a, 6)
		if k == 0 || k > 1<<16 || r.hi > 1<<44 {
			return
		}
		total += k * r.hi
		los[i] = k * r.lo
		if total > limit {
			return
		}
	}
	if hi < c {
		return
	}
	for i, a := range lf.atoms {
		k := lf.coef[a] & mask(w)
		rest := c
		for j := range lf.atoms {
			if j != i {
				rest += los[j]
			}
		}
		if hi < rest {
			continue
		}
		nh := (hi - rest) / k
		iv, ok := b.u[a]
		if !ok {
			iv = ival{0, mask(a.S.W)}
		}
		if nh < iv.hi {
			iv.hi = nh
			b.u[a] = iv
			if a.Op == "zext" {
				b.setHi(a.Args[0], nh)
			}
		}
	}
}

func (b *boundsTab) setLo(t *Term, lo uint64) {
	if t.S.K != SBV || t.IsConst() {
		return
	}
	iv, ok := b.u[t]
	if !ok {
		iv = ival{0, mask(t.S.W)}
	}
	if lo > iv.lo {
		iv.lo = lo
	}
	b.u[t] = iv
}

func (b *boundsTab) setS(t *Term, lo, hi int64, hasLo, hasHi bool) {
	if t.S.K != SBV || t.IsConst() {
		return
	}
	w := t.S.W
	minS, maxS := int64(-1)<<uint(w-1), int64(mask(w)>>1)
	cur, ok := b.s[t]
	if !ok {
		cur = [2]int64{minS, maxS}
	}
	if hasLo && lo > cur[0] {
		cur[0] = lo
	}
	if hasHi && hi < cur[1] {
		cur[1] = hi
	}
	b.s[t] = cur
	if cur[0] >= 0 && cur[1] >= cur[0] {
		b.setLo(t, uint64(cur[0]))
		b.setHi(t, uint64(cur[1]))
	} else if cur[1] >= 0 && b.rng(t).hi <= uint64(maxS) {
		// the term cannot be negative (its unsigned range stays below the sign bit): signed bound = unsigned bound
		b.setHi(t, uint64(cur[1]))
	}
}

// fact records what a path-condition conjunct says about single terms (pos: the conjunct holds; else its negation).
func (b *boundsTab) fact(t *Term, pos bool) {
	switch t.Op {
	case "not":
		b.fact(t.Args[0], !pos)
	case "and":
		if pos {
			for _, a := range t.Args {
				b.fact(a, true)
			}
		}
	case "or":
		if !pos {
			for _, a := range t.Args {
				b.fact(a, false)
			}
		}
	case "=":
		if !pos {
			return
		}
		x, y := t.Args[0], t.Args[1]
		if x.S.K != SBV {
			return
		}
		if x.IsConst() {
			x, y = y, x
		}
		if y.IsConst() {
			b.setLo(x, y.Val)
			b.setHi(x, y.Val)
		} else {
			// two symbolic sides: each inherits the other's interval
			if b.rel != nil {
				b.rel = append(b.rel, relFact{t, pos})
				b.solveEq(x, y)
			}
			xi, yi := b.rng(x), b.rng(y)
			b.setLo(x, yi.lo)
			b.setHi(x, yi.hi)
			b.setLo(y, xi.lo)
			b.setHi(y, xi.hi)
		}
	case "bvult", "bvule":
		if !t.Args[0].IsConst() && !t.Args[1].IsConst() && b.rel != nil {
			b.rel = append(b.rel, relFact{t, pos})
		}
		x, y := t.Args[0], t.Args[1]
		strict := t.Op == "bvult"
		if !pos {
			// not (x < y)  ==  y <= x ; not (x <= y) == y < x
			x, y = y, x
			strict = !strict
		}
		xi, yi := b.rng(x), b.rng(y)
		// x < y or x <= y
		d := uint64(0)
		if strict {
			d = 1
		}
		if yi.hi >= d {
			b.setHi(x, yi.hi-d)
		}
		if xi.lo <= mask(y.S.W)-d {
			b.setLo(y, xi.lo+d)
		}
	case "bvslt", "bvsle":
		if b.rel != nil {
			b.rel = append(b.rel, relFact{t, pos})
		}
		x, y := t.Args[0], t.Args[1]
		strict := t.Op == "bvslt"
		if !pos {
			x, y = y, x
			strict = !strict
		}
		d := int64(0)
		if strict {
			d = 1
		}
		if y.IsConst() {
			b.setS(x, 0, y.SVal()-d, false, true)
		} else if x.IsConst() {
			b.setS(y, x.SVal()+d, 0, true, false)
		} else {
			// both symbolic: use known signed/unsigned bounds when both are known non-negative
			xs, okx := b.s[x]
			ys, oky := b.s[y]
			if oky && ys[1] >= 0 {
				b.setS(x, 0, ys[1]-d, false, true)
			}
			if okx {
				b.setS(y, xs[0]+d, 0, true, false)
			}
		}
	}
}

// rng: an unsigned interval containing every value t can take on the current path.
func (b *boundsTab) rng(t *Term) ival {
	return b.rngD(t, 0)
}

func (b *boundsTab) rngD(t *Term, depth int) ival {
	w := t.S.W
	full := ival{0, mask(w)}
	if t.S.K != SBV {
		return full
	}
	if t.IsConst() {
		return ival{t.Val, t.Val}
	}
	r := full
	if iv, ok := b.u[t]; ok {
		r = iv
	}
	if depth > 12 {
		return r
	}
	meet := func(x ival) {
		if x.lo > r.lo {
			r.lo = x.lo
		}
		if x.hi < r.hi {
			r.hi = x.hi
		}
	}
	switch t.Op {
	case "zext":
		x := b.rngD(t.Args[0], depth+1)
		meet(x)
	case "bvadd":
		x, y := b.rngD(t.Args[0], depth+1), b.rngD(t.Args[1], depth+1)
		hi := x.hi + y.hi
		if hi >= x.hi && hi <= mask(w) { // no wrap
			meet(ival{x.lo + y.lo, hi})
		} else if y.lo == y.hi && y.lo > mask(w)/2 {
			// adding a negative constant c = -k: x - k when x.lo >= k
			k := (-y.lo) & mask(w)
			if x.lo >= k {
				meet(ival{x.lo - k, x.hi - k})
			}
		}
	case "bvsub":
		x, y := b.rngD(t.Args[0], depth+1), b.rngD(t.Args[1], depth+1)
		if x.lo >= y.hi {
			meet(ival{x.lo - y.hi, x.hi - y.lo})
		}
	case "bvmul":
		x, y := b.rngD(t.Args[0], depth+1), b.rngD(t.Args[1], depth+1)
		if x.hi == 0 || y.hi == 0 {
			meet(ival{0, 0})
		} else if x.hi <= mask(w)/y.hi {
			meet(ival{x.lo * y.lo, x.hi * y.hi})
		}
	case "bvudiv":
		x, y := b.rngD(t.Args[0], depth+1), b.rngD(t.Args[1], depth+1)
		if y.lo > 0 {
			meet(ival{x.lo / y.hi, x.hi / y.lo})
		}
	case "bvurem":
		x, y := b.rngD(t.Args[0], depth+1), b.rngD(t.Args[1], depth+1)
		if y.lo > 0 {
			hi := y.hi - 1
			if x.hi < hi {
				hi = x.hi
			}
			meet(ival{0, hi})
		}
	case "bvand":
		x, y := b.rngD(t.Args[0], depth+1), b.rngD(t.Args[1], depth+1)
		hi := x.hi
		if y.hi < hi {
			hi = y.hi
		}
		meet(ival{0, hi})
	case "bvor", "bvxor":
		x, y := b.rngD(t.Args[0], depth+1), b.rngD(t.Args[1], depth+1)
		m := x.hi | y.hi
		// smallest all-ones value covering both
		for i := uint(1); i < 64; i <<= 1 {
			m |= m >> i
		}
		meet(ival{0, m & mask(w)})
	case "bvlshr":
		x := b.rngD(t.Args[0], depth+1)
		if t.Args[1].IsConst() && t.Args[1].Val < 64 {
			meet(ival{x.lo >> t.Args[1].Val, x.hi >> t.Args[1].Val})
		} else {
			meet(ival{0, x.hi})
		}
	case "bvshl":
		x := b.rngD(t.Args[0], depth+1)
		if t.Args[1].IsConst() && t.Args[1].Val < 64 {
			s := t.Args[1].Val
			if x.hi <= mask(w)>>s {
				meet(ival{x.lo << s, x.hi << s})
			}
		}
	case "ite":
		x, y := b.rngD(t.Args[1], depth+1), b.rngD(t.Args[2], depth+1)
		if c := t.Args[0]; c.Op == "bvult" || c.Op == "bvule" {
			// min / max shapes and decided conditions
			p, q := b.rngD(c.Args[0], depth+1), b.rngD(c.Args[1], depth+1)
			if p.hi < q.lo || (c.Op == "bvule" && p.hi <= q.lo) {
				meet(x)
				break
			}
			if p.lo > q.hi || (c.Op == "bvult" && p.lo >= q.hi) {
				meet(y)
				break
			}
		}
		lo, hi := x.lo, x.hi
		if y.lo < lo {
			lo = y.lo
		}
		if y.hi > hi {
			hi = y.hi
		}
		meet(ival{lo, hi})
	case "extract":
		if t.B == 0 {
			x := b.rngD(t.Args[0], depth+1)
			if x.hi <= mask(w) {
				meet(x)
			}
		}
	case "concat":
		// high part zero?
		x := b.rngD(t.Args[0], depth+1)
		lw := t.Args[1].S.W
		y := b.rngD(t.Args[1], depth+1)
		if x.hi <= mask(w-lw) && w <= 64 {
			meet(ival{x.lo<<uint(lw) | 0, x.hi<<uint(lw) | y.hi})
		}
	}
	if r.lo > r.hi { // inconsistent path
		return full
	}
	return r
}

// decideUnder: the truth value of an unsigned comparison when the intervals under the current path decide it,
// else the term itself.
// noBounds (GOVC_NO_BOUNDS=1): differential mode without interval reasoning; every obligation refuted here must also
// be refuted in the normal mode (the simplifications only replace terms by equal terms under the path condition).
var noBounds = os.Getenv("GOVC_NO_BOUNDS") != ""

func decideUnder(c *Term) *Term {
	if noBounds || curPC == nil || c.S.K != SBool {
		return c
	}
	switch c.Op {
	case "not":
		d := decideUnder(c.Args[0])
		if d != c.Args[0] {
			return Not(d)
		}
	case "bvult", "bvule":
		b := boundsOf(curPC)
		sx, sy := simpUnder(c.Args[0]), simpUnder(c.Args[1])
		x, y := b.rng(sx), b.rng(sy)
		if lim := mask(sx.S.W) >> 2; x.hi <= lim && y.hi <= lim {
			// both far from wrapping: a constant difference decides the comparison
			if d := bin("bvsub", sy, sx); d.IsConst() {
				sd := d.SVal()
				if c.Op == "bvult" {
					return BoolC(sd > 0)
				}
				return BoolC(sd >= 0)
			}
		}
		if c.Op == "bvult" {
			if x.hi < y.lo {
				return True
			}
			if x.lo >= y.hi {
				return False
			}
		} else {
			if x.hi <= y.lo {
				return True
			}
			if x.lo > y.hi {
				return False
			}
		}
	case "bvslt", "bvsle":
		b := boundsOf(curPC)
		sx, sy := simpUnder(c.Args[0]), simpUnder(c.Args[1])
		x, y := b.rng(sx), b.rng(sy)
		maxS := mask(c.Args[0].S.W) >> 1
		if lim := mask(sx.S.W) >> 2; x.hi <= lim && y.hi <= lim {
			if d := bin("bvsub", sy, sx); d.IsConst() {
				sd := d.SVal()
				if c.Op == "bvslt" {
					return BoolC(sd > 0)
				}
				return BoolC(sd >= 0)
			}
		}
		if x.hi <= maxS && y.hi <= maxS {
			if c.Op == "bvslt" {
				if x.hi < y.lo {
					return True
				}
				if x.lo >= y.hi {
					return False
				}
			} else {
				if x.hi <= y.lo {
					return True
				}
				if x.lo > y.hi {
					return False
				}
			}
		}
	case "=":
		if c.Args[0].S.K == SBV {
			b := boundsOf(curPC)
			sx, sy := simpUnder(c.Args[0]), simpUnder(c.Args[1])
			if e := Eq(sx, sy); e.IsTrue() || e.IsFalse() {
				return e
			}
			x, y := b.rng(sx), b.rng(sy)
			if x.hi < y.lo || y.hi < x.lo {
				return False
			}
		}
	}
	return c
}

// simpUnder: t with every sub-term of its sum structure whose value the current path fixes replaced by that
// constant, and if-then-else terms with a decided condition resolved.
func simpUnder(t *Term) *Term {
	if noBounds || curPC == nil || t.S.K != SBV || t.IsConst() {
		return t
	}
	return simpUnderD(boundsOf(curPC), t, 0)
}

func simpUnderD(b *boundsTab, t *Term, depth int) *Term {
	if t.IsConst() || depth > 10 {
		return t
	}
	if d, ok := b.subst[t]; ok {
		return simpUnderD(b, d, depth+1)
	}
	if r := b.rngD(t, 4); r.lo == r.hi {
		return Const(t.S.W, r.lo)
	}
	switch t.Op {
	case "bvadd", "bvsub", "bvmul":
		x, y := simpUnderD(b, t.Args[0], depth+1), simpUnderD(b, t.Args[1], depth+1)
		if x != t.Args[0] || y != t.Args[1] {
			return bin(t.Op, x, y)
		}
	case "bvneg":
		x := simpUnderD(b, t.Args[0], depth+1)
		if x != t.Args[0] {
			return Neg(x)
		}
	case "zext":
		in := t.Args[0]
		w, iw := t.S.W, in.S.W
		switch in.Op {
		case "bvadd", "bvmul":
			// arithmetic in the narrow width that cannot wrap is the same arithmetic in the wide width
			x, y := b.rngD(in.Args[0], 6), b.rngD(in.Args[1], 6)
			ok := false
			if in.Op == "bvadd" {
				ok = x.hi+y.hi <= mask(iw)
			} else {
				ok = x.hi == 0 || y.hi <= mask(iw)/x.hi
			}
			if ok {
				return bin(in.Op, simpUnderD(b, ZExt(in.Args[0], w), depth+1), simpUnderD(b, ZExt(in.Args[1], w), depth+1))
			}
		case "bvsub":
			x, y := b.rngD(in.Args[0], 6), b.rngD(in.Args[1], 6)
			if x.lo >= y.hi {
				return bin("bvsub", simpUnderD(b, ZExt(in.Args[0], w), depth+1), simpUnderD(b, ZExt(in.Args[1], w), depth+1))
			}
		case "extract":
			// truncation that loses nothing
			if in.B == 0 {
				src := in.Args[0]
				if r := b.rngD(src, 6); r.hi <= mask(iw) {
					if src.S.W == w {
						return simpUnderD(b, src, depth+1)
					}
					if src.S.W < w {
						return simpUnderD(b, ZExt(src, w), depth+1)
					}
				}
			}
		}
		x := simpUnderD(b, in, depth+1)
		if x != in {
			return ZExt(x, t.S.W)
		}
	case "ite":
		c := decideUnder(t.Args[0])
		if c.IsTrue() {
			return simpUnderD(b, t.Args[1], depth+1)
		}
		if c.IsFalse() {
			return simpUnderD(b, t.Args[2], depth+1)
		}
		x, y := simpUnderD(b, t.Args[1], depth+1), simpUnderD(b, t.Args[2], depth+1)
		if x != t.Args[1] || y != t.Args[2] {
			return Ite(t.Args[0], x, y)
		}
	}
	return t
}

// belowUnder: index i lies below a copied range [dst, dst+n) that cannot wrap around.
func belowUnder(i, dst, n *Term) bool {
	if noBounds || curPC == nil {
		return false
	}
	b := boundsOf(curPC)
	ri, rd, rn := b.rng(i), b.rng(dst), b.rng(n)
	lim := mask(64) >> 2
	return ri.hi < rd.lo && rd.hi <= lim && rn.hi <= lim
}

// applySubst replaces defined atoms inside the sum structure of a 64-bit term.
func (b *boundsTab) applySubst(t *Term, depth int) *Term {
	if len(b.subst) == 0 || depth > 12 {
		return t
	}
	if d, ok := b.subst[t]; ok {
		return d
	}
	switch t.Op {
	case "bvadd", "bvsub", "bvmul":
		if t.Op == "bvmul" && !t.Args[0].IsConst() && !t.Args[1].IsConst() {
			return t
		}
		x, y := b.applySubst(t.Args[0], depth+1), b.applySubst(t.Args[1], depth+1)
		if x != t.Args[0] || y != t.Args[1] {
			return bin(t.Op, x, y)
		}
	case "bvneg":
		x := b.applySubst(t.Args[0], depth+1)
		if x != t.Args[0] {
			return Neg(x)
		}
	}
	return t
}

// solveEq: from the path fact x == y (64-bit, both symbolic) solve the linear equation for one atom with
// coefficient +-1 (exact in modular arithmetic) and keep it as a rewrite rule for deciding comparisons.
func (b *boundsTab) solveEq(x, y *Term) {
	if x.S.W != 64 || len(b.subst) > 64 {
		return
	}
	e := b.applySubst(bin("bvsub", x, y), 0)
	lf := &linForm{coef: map[*Term]uint64{}}
	lf.add(e, 1)
	if lf.nodes > 400 || len(lf.atoms) < 2 || len(lf.atoms) > 12 {
		return
	}
	var pivot *Term
	for _, a := range lf.atoms {
		k := lf.coef[a]
		if k != 1 && k != ^uint64(0) {
			continue
		}
		if a.Op != "var" {
			continue
		}
		if pivot == nil || a.id > pivot.id {
			pivot = a
		}
	}
	if pivot == nil {
		return
	}
	// e = k*pivot + rest == 0  =>  pivot = -rest (k = 1) or pivot = rest (k = -1)
	k := lf.coef[pivot]
	rest := bin("bvsub", e, pivot)
	if k != 1 {
		rest = bin("bvadd", e, pivot)
	}
	var def *Term
	if k == 1 {
		def = bin("bvsub", Const(64, 0), rest)
	} else {
		def = rest
	}
	// the definition must not mention the pivot (it cannot: coefficients cancel exactly), check anyway
	chk := &linForm{coef: map[*Term]uint64{}}
	chk.add(def, 1)
	if chk.coef[pivot] != 0 || chk.nodes > 400 {
		return
	}
	for a, d := range b.subst {
		one := &boundsTab{subst: map[*Term]*Term{pivot: def}}
		b.subst[a] = one.applySubst(d, 0)
	}
	b.subst[pivot] = def
}
