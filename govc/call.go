package main

// Calls: builtins, contracts (static and interface), inlining, assumed models of externals.

import (
	"fmt"
	"os"
	"go/types"
	"sort"
	"strings"

	"golang.org/x/tools/go/ssa"
)

func (ex *Exec) call(st *State, fr *Frame, c *ssa.Call) []Outcome {
	com := c.Common()
	if com.IsInvoke() {
		return ex.invoke(st, fr, c)
	}
	args := make([]Value, len(com.Args))
	for i, a := range com.Args {
		args[i] = ex.operand(st, fr, a)
	}
	switch f := com.Value.(type) {
	case *ssa.Builtin:
		return ex.builtin(st, fr, c, f.Name(), args)
	case *ssa.Function:
		return ex.callFunc(st, fr, c, f, args, nil)
	case *ssa.MakeClosure:
		fv := ex.operand(st, fr, f).(VFunc)
		return ex.callFunc(st, fr, c, fv.Fn, args, fv.Bind)
	}
	fv, ok := ex.operand(st, fr, com.Value).(VFunc)
	if !ok || fv.Fn == nil {
		oos("call through unknown function value %s", com.Value)
	}
	return ex.callFunc(st, fr, c, fv.Fn, args, fv.Bind)
}

func (ex *Exec) callFunc(st *State, fr *Frame, c ssa.Instruction, fn *ssa.Function, args []Value, bind []Value) []Outcome {
	// assumed models of externals
	if m, ok := extModels[fn.String()]; ok {
		ex.assumed[fn.String()] = true
		return m(ex, st, fr, c, fn, args)
	}
	// In recover mode callees are executed, not abstracted: what happens after a violated callee
	// precondition (panic or garbage) decides the property, and only the body knows.
	inlineAll := ex.topFC != nil && ex.topFC.InlineCalls && ex.L.isRepoFunc(fn) && fn.Blocks != nil
	recDepth := 0
	if fr != nil {
		recDepth = strings.Count(fr.chain+">", "in:"+shortFuncName(fn)+">")
		if fr.fn == fn && recDepth == 0 {
			recDepth = 1
		}
	}
	recAllowed := 0
	if ex.topFC != nil {
		recAllowed = ex.topFC.Recurse
	}
	if inlineAll && recDepth > recAllowed && ex.L.Contracts.lookup(fn) != nil {
		inlineAll = false // recursion: the nested call is abstracted by its contract
	}
	if fc := ex.L.Contracts.lookup(fn); fc != nil && !fc.InlineOnly && !inlineAll && !(ex.recoverMode && ex.L.isRepoFunc(fn) && fn.Blocks != nil) {
		return ex.callContract(st, fr, c, fn, fc, args, bind)
	}
	if !ex.L.isRepoFunc(fn) {
		if !inlineExternal(fn) {
			if ex.lenient {
				var rets []Value
				res := fn.Signature.Results()
				for i := 0; i < res.Len(); i++ {
					rets = append(rets, st.symValue(res.At(i).Type(), freshName("ext."+fn.Name()), 1, true))
				}
				return []Outcome{{st, rets}}
			}
			oos("call to unmodelled external %s", fn)
		}
	}
	if fn.Blocks == nil {
		oos("call to body-less function %s", fn)
	}
	if fr.depth >= ex.maxInline {
		oos("inline depth exceeded at %s (callee needs a contract)", fn)
	}
	if recDepth > recAllowed {
		oos("recursive call to %s needs a contract", fn)
	}
	ex.inlined[funcKey(fn)] = true
	nf := ex.newFrame(fn, args, bind, fr)
	if hasRecover(fn) && !ex.panicking {
		oos("inlining function with defer/recover: %s", fn)
	}
	return ex.runBody(st, nf)
}

func inlineExternal(fn *ssa.Function) bool {
	s := fn.String()
	if strings.HasPrefix(s, "(encoding/binary.bigEndian).") {
		n := fn.Name()
		return strings.HasPrefix(n, "Uint") || strings.HasPrefix(n, "PutUint")
	}
	switch s {
	case "bytes.NewBuffer", "(*bytes.Buffer).Len", "(*bytes.Buffer).Bytes", "(*bytes.Buffer).empty", "(*bytes.Buffer).Reset":
		return true
	case "math/big.NewInt":
		return false
	}
	return false
}

func callsRecover(fn *ssa.Function) bool {
	for _, b := range fn.Blocks {
		for _, in := range b.Instrs {
			if c, ok := in.(*ssa.Call); ok {
				if bi, ok2 := c.Common().Value.(*ssa.Builtin); ok2 && bi.Name() == "recover" {
					return true
				}
			}
		}
	}
	return false
}

func hasRecover(fn *ssa.Function) bool {
	for _, b := range fn.Blocks {
		for _, in := range b.Instrs {
			if _, ok := in.(*ssa.Defer); ok {
				return true
			}
		}
	}
	return false
}

// ---------- contracts at call sites ----------

// coverCalls: emit a cover obligation behind every contract call (thorough tier, or GOVC_COVER_CALLS=1);
// coverBlocks: audit listing of unreached basic blocks (GOVC_COVER_BLOCKS=1, govc verify only).
var coverCalls = os.Getenv("GOVC_COVER_CALLS") != ""
var coverBlocks = os.Getenv("GOVC_COVER_BLOCKS") != ""

func (ex *Exec) callContract(st *State, fr *Frame, c ssa.Instruction, fn *ssa.Function, fc *FuncContract, args []Value, bind []Value) []Outcome {
	ex.usedCtr[funcKey(fn)] = true
	if fc.Trusted {
		ex.assumed["trusted:"+funcKey(fn)] = true
	}
	env := &Env{ex: ex, st: st, vars: map[string]tv{}, fr: fr}
	pk := fn.Pkg
	if pk == nil && fn.Origin() != nil {
		pk = fn.Origin().Pkg
	}
	if pk != nil {
		env.pkg = pk.Pkg
	}
	for i, n := range fc.Params {
		env.bind(n, args[i], fn.Params[i].Type())
	}
	if fn.Signature.Recv() != nil && len(args) > 0 {
		if _, ok := env.vars["self"]; !ok {
			env.bind("self", args[0], fn.Params[0].Type())
		}
	}
	for i, fv := range fn.FreeVars {
		if i < len(bind) {
			if _, ok := env.vars[fv.Name()]; !ok {
				bindFreeVar(env, st, fv, bind[i])
			}
		}
	}
	// receiver / pointer params must be non-nil when the contract dereferences them: requires say so explicitly.
	for i, r := range fc.Requires {
		g := ex.evalBoolClause(st, env, r)
		if ex.recoverMode {
			ex.forkPanic(st, Not(g)) // a violated precondition may panic inside the callee
		} else if c != nil {
			ex.emit(st, fr, "pre", fmt.Sprintf("%s#%d@%s", shortFuncName(fn), i+1, ex.L.instrDetail(c)), "requires "+r.Text, g, r.Props, c.Pos())
		}
		st.assume(g)
	}
	pre := st.clone()
	// havoc modifies
	for _, m := range fc.Modifies {
		ex.havocClause(st, env, m, "call:"+fn.Name())
	}
	for _, ap := range fc.Appends {
		env2 := env.withState(st)
		env2.in = ap.Buf.Text
		loc, bt := env2.bufPtr(env2.eval(ap.Buf.Expr))
		n := ex.evalIntClause(st, env, ap.N)
		st.assume(ULe(n, Const(64, 1<<maxLenBits)))
		id := st.allocBytes(bmBaseOf(Fresh("appended_"+fn.Name(), ArrSort)), n, true, "appended")
		bufAppend(ex, st, loc, VSlice{Obj: id, Off: Const(64, 0), Len: n, Cap: n, Nil: False}, bt)
	}
	// results
	var rets []Value
	res := fn.Signature.Results()
	for i := 0; i < res.Len(); i++ {
		name := fmt.Sprintf("%s.ret%d", fn.Name(), i)
		if i < len(fc.Results) {
			name = fn.Name() + "." + fc.Results[i]
		}
		rv := st.symValue(res.At(i).Type(), freshName(name), 3, false)
		ex.markFreshResult(st, rv)
		rets = append(rets, rv)
		if i < len(fc.Results) {
			env.bind(fc.Results[i], rv, res.At(i).Type())
		}
	}
	env.old = pre
	for i, en := range fc.Ensures {
		lab := fmt.Sprint(i + 1)
		if en.Label != "" {
			lab = en.Label
		}
		if knownFalsePost[funcKey(fn)+"/post:"+lab] {
			continue // a known finding: this postcondition does not hold, so callers do not get it
		}
		ex.assumeClauseLenient(st, env, en)
	}
	if coverCalls && c != nil && !ex.inDiscovery() && !st.dead {
		// vacuity guard: the state behind a contract call (its success continuation when the callee returns an
		// error) must be satisfiable on at least one path - contradictory assumed postconditions would make
		// everything behind the call vacuous
		name := ex.oblName(fr, "covercall", fmt.Sprintf("%s@%s", shortFuncName(fn), ex.L.instrDetail(c)))
		hyps := st.pc.list()
		// with an error result: the SUCCESS continuation must be satisfiable on at least one path
		if n := len(rets); n > 0 && res.At(n-1).Type().String() == "error" {
			if iv, ok := rets[n-1].(VIface); ok && iv.Nil != nil {
				hyps = append(append([]*Term{}, hyps...), iv.Nil)
			}
		}
		ex.obligs = append(ex.obligs, &Oblig{Name: name, Class: "covercall", Func: ex.topName(), Clause: "state after the call is satisfiable", Hyps: hyps, Cover: true, st: st.clone(), entry: ex.entry})
	}
	return []Outcome{{st, rets}}
}

// markFreshResult: values returned by a contract call are fresh objects unless the contract says otherwise.
func (ex *Exec) markFreshResult(st *State, v Value) {
	objs := map[int]bool{}
	collectObjs(st, v, objs, 2)
	for id := range objs {
		o := st.heap[id]
		if o != nil && !o.Fresh {
			c := *o
			c.Fresh = true
			st.heap[id] = &c
		}
	}
}

// havocClause havocs the location denoted by a modifies expression: "*p" (whole object), "p.f", "p.f.g".
func (ex *Exec) havocClause(st *State, env *Env, m *Clause, why string) {
	env = env.withState(st)
	env.in = m.Text
	loc, typ := env.evalLoc(m.Expr)
	if loc.Global != nil {
		if id, ok := st.globals[loc.Global]; ok {
			loc = VPtr{Obj: id, Path: loc.Path}
		}
	}
	if loc.Obj <= 0 {
		return
	}
	w := writeRec{obj: loc.Obj, path: loc.Path, typ: typ}
	ex.havocLoc(st, w, why)
	if len(ex.disc) > 0 {
		ex.noteWrite(st, nil, loc, typ)
	}
}

// ---------- interface method invocation ----------

func (ex *Exec) invoke(st *State, fr *Frame, c *ssa.Call) []Outcome {
	com := c.Common()
	recv, ok := ex.operand(st, fr, com.Value).(VIface)
	if !ok {
		oos("invoke on %T", ex.operand(st, fr, com.Value))
	}
	args := make([]Value, len(com.Args))
	for i, a := range com.Args {
		args[i] = ex.operand(st, fr, a)
	}
	if recv.Dyn != nil {
		if recv.Dyn == opaqueErrType {
			return ex.opaqueErrMethod(st, c, com.Method.Name())
		}
		sel := ex.L.Prog.MethodSets.MethodSet(recv.Dyn).Lookup(com.Method.Pkg(), com.Method.Name())
		if sel == nil {
			oos("no method %s on %s", com.Method.Name(), typeStr(recv.Dyn))
		}
		fn := ex.L.Prog.MethodValue(sel)
		if fn == nil {
			oos("abstract method %s on %s", com.Method.Name(), typeStr(recv.Dyn))
		}
		recvVal := recv.Val
		// method value wrappers: go/ssa synthesises wrappers for promoted methods; they have bodies.
		return ex.callFunc(st, fr, c, fn, append([]Value{recvVal}, args...), nil)
	}
	if recv.ID == nil {
		ex.safety(st, fr, "invoke-nil", c, False)
		st.dead = true
		return nil
	}
	ex.safety(st, fr, "invoke-nil", c, Not(nilT(recv.Nil)))
	if st.dead {
		return nil
	}
	recv.Nil = False
	// error interface and Stringers
	if isErrorIface(com.Value.Type()) {
		return ex.opaqueErrMethod(st, c, com.Method.Name())
	}
	it := ifaceName(com.Value.Type())
	var mc *FuncContract
	if ic := ex.L.Contracts.Ifaces[it]; ic != nil {
		mc = ic.Methods[com.Method.Name()]
	}
	if mc == nil {
		// embedded interface: search the interface contracts this static type embeds
		var names []string
		for n := range ex.L.Contracts.Ifaces {
			names = append(names, n)
		}
		sort.Strings(names)
		for _, n := range names {
			other := ex.L.Contracts.Ifaces[n]
			if m2, ok := other.Methods[com.Method.Name()]; ok && ifaceEmbeds(com.Value.Type(), other.Name) {
				mc = m2
				break
			}
		}
	}
	if mc == nil {
		oos("invoke of %s.%s on unknown dynamic type: no interface contract", it, com.Method.Name())
	}
	ex.usedCtr["iface:"+it+"."+com.Method.Name()] = true
	return ex.callIfaceContract(st, fr, c, recv, com, mc, args)
}

func isErrorIface(t types.Type) bool {
	n, ok := t.(*types.Named)
	return ok && n.Obj().Pkg() == nil && n.Obj().Name() == "error"
}

func ifaceName(t types.Type) string {
	if n, ok := t.(*types.Named); ok {
		if n.Obj().Pkg() == nil {
			return n.Obj().Name()
		}
		return n.Obj().Pkg().Name() + "." + n.Obj().Name()
	}
	return typeStr(t)
}

func ifaceEmbeds(t types.Type, name string) bool {
	it, ok := t.Underlying().(*types.Interface)
	if !ok {
		return false
	}
	for i := 0; i < it.NumEmbeddeds(); i++ {
		if ifaceName(it.EmbeddedType(i)) == name || ifaceEmbeds(it.EmbeddedType(i), name) {
			return true
		}
	}
	return false
}

func (ex *Exec) opaqueErrMethod(st *State, c *ssa.Call, name string) []Outcome {
	switch name {
	case "Error", "String":
		return []Outcome{{st, []Value{VStr{ID: Fresh("errstr", BV(64))}}}}
	}
	oos("method %s on opaque value", name)
	return nil
}

func (ex *Exec) callIfaceContract(st *State, fr *Frame, c *ssa.Call, recv VIface, com *ssa.CallCommon, mc *FuncContract, args []Value) []Outcome {
	env := &Env{ex: ex, st: st, vars: map[string]tv{}, fr: fr}
	env.pkg = ex.L.SSAPkgs[mc.Pkg].Pkg
	sig := com.Signature()
	if len(mc.Params) != sig.Params().Len() {
		oos("interface contract %s binds %d params, method has %d", mc.Ref, len(mc.Params), sig.Params().Len())
	}
	env.bind("self", recv, com.Value.Type())
	for i, n := range mc.Params {
		env.bind(n, args[i], sig.Params().At(i).Type())
	}
	for i, r := range mc.Requires {
		g := ex.evalBoolClause(st, env, r)
		ex.emit(st, fr, "pre", fmt.Sprintf("%s#%d@%s", mc.Ref, i+1, ex.L.instrDetail(c)), "requires "+r.Text, g, r.Props, c.Pos())
		st.assume(g)
	}
	pre := st.clone()
	var rets []Value
	res := sig.Results()
	for i := 0; i < res.Len(); i++ {
		name := fmt.Sprintf("%s.ret%d", mc.Ref, i)
		if i < len(mc.Results) {
			name = mc.Ref + "." + mc.Results[i]
		}
		rv := st.symValue(res.At(i).Type(), freshName(name), 3, false)
		ex.markFreshResult(st, rv)
		rets = append(rets, rv)
		if i < len(mc.Results) {
			env.bind(mc.Results[i], rv, res.At(i).Type())
		}
	}
	env.old = pre
	for _, en := range mc.Ensures {
		ex.assumeClause(st, env, en)
	}
	return []Outcome{{st, rets}}
}

// ---------- builtins ----------

func (ex *Exec) builtin(st *State, fr *Frame, c *ssa.Call, name string, args []Value) []Outcome {
	one := func(v Value) []Outcome { return []Outcome{{st, []Value{v}}} }
	switch name {
	case "len":
		switch x := args[0].(type) {
		case VSlice:
			return one(VInt{x.Len})
		case VStr:
			if x.Lit != nil {
				return one(VInt{Const(64, uint64(len(*x.Lit)))})
			}
			n := App("strlen", BV(64), x.ID)
			st.assume(ULe(n, Const(64, 1<<maxLenBits)))
			return one(VInt{n})
		case VArray:
			return one(VInt{Const(64, uint64(len(x.E)))})
		case VMapRef:
			if x.Obj != 0 {
				if mv, ok := st.heap[x.Obj].Val.(VMapVal); ok && !mv.Symbolic {
					return one(VInt{Const(64, uint64(len(mv.Entries)))})
				}
			}
		case VPtr:
			if at, ok := c.Common().Args[0].Type().Underlying().(*types.Pointer); ok {
				if arr, ok2 := at.Elem().Underlying().(*types.Array); ok2 {
					return one(VInt{Const(64, uint64(arr.Len()))})
				}
			}
		}
		oos("len of %T", args[0])
	case "cap":
		if x, ok := args[0].(VSlice); ok {
			return one(VInt{x.Cap})
		}
		oos("cap of %T", args[0])
	case "copy":
		return one(ex.copyBuiltin(st, fr, c, args[0], args[1]))
	case "append":
		return one(ex.appendBuiltin(st, fr, c, args[0], args[1], c.Common().Args[0].Type()))
	case "panic":
		if ex.recoverMode {
			ex.forkPanic(st, True)
			return nil
		}
		ex.emit(st, fr, "safety/panic", ex.L.instrDetail(c), "explicit panic is unreachable", False, nil, c.Pos())
		return nil
	case "ssa:wrapnilchk":
		// wrapper of a value-receiver method called through a pointer: panics when the pointer is nil, else returns it
		if p, ok := args[0].(VPtr); ok {
			q := ex.checkNonNil(st, fr, p, c)
			if st.dead {
				return nil
			}
			return one(q)
		}
		return one(args[0])
	case "print", "println":
		return []Outcome{{st, nil}}
	case "recover":
		if ex.panicking {
			return one(VIface{ID: Fresh("recovered#id", BV(64)), Nil: False})
		}
		return one(nilIface)
	case "min", "max":
		a := args[0].(VInt)
		b := args[1].(VInt)
		_, signed, _ := intInfo(c.Common().Args[0].Type())
		var lt *Term
		if signed {
			lt = SLt(a.T, b.T)
		} else {
			lt = ULt(a.T, b.T)
		}
		if name == "max" {
			lt = Not(lt)
		}
		return one(VInt{Ite(lt, a.T, b.T)})
	}
	oos("builtin %s", name)
	return nil
}

func (ex *Exec) bytesOf(st *State, v Value) (mem *ByteMem, off, ln *Term, obj int) {
	switch s := v.(type) {
	case VSlice:
		if s.Obj == 0 {
			return bmZeros, Const(64, 0), Const(64, 0), 0
		}
		o := st.heap[s.Obj]
		if o.Kind != okBytes {
			oos("byte operation on non-byte object")
		}
		return o.Mem, s.Off, s.Len, s.Obj
	case VStr:
		if s.Lit != nil {
			m := bmZeros
			for i := 0; i < len(*s.Lit); i++ {
				m = m.Store(Const(64, uint64(i)), Const(8, uint64((*s.Lit)[i])))
			}
			return m, Const(64, 0), Const(64, uint64(len(*s.Lit))), 0
		}
		n := App("strlen", BV(64), s.ID)
		st.assume(ULe(n, Const(64, 1<<maxLenBits)))
		return bmBaseOf(App("strbytes", ArrSort, s.ID)), Const(64, 0), n, 0
	}
	oos("bytes of %T", v)
	return
}

func (ex *Exec) copyBuiltin(st *State, fr *Frame, c *ssa.Call, dst, src Value) Value {
	d, ok := dst.(VSlice)
	if !ok {
		oos("copy to %T", dst)
	}
	if d.Obj == 0 {
		return VInt{Const(64, 0)}
	}
	do := st.heap[d.Obj]
	if do.Kind == okBytes {
		smem, soff, slen, _ := ex.bytesOf(st, src)
		n := Ite(ULt(slen, d.Len), slen, d.Len)
		co := *do
		co.Mem = do.Mem.Copy(d.Off, smem, soff, n)
		st.heap[d.Obj] = &co
		ex.noteObjWrite(st, d.Obj)
		ex.noteCopy(st, fr, c, d, slen)
		return VInt{n}
	}
	// element sequences: only constant-length copies
	s, ok := src.(VSlice)
	if !ok {
		oos("copy from %T", src)
	}
	n := Ite(ULt(s.Len, d.Len), s.Len, d.Len)
	if !n.IsConst() {
		oos("copy of element sequence with symbolic length")
	}
	for i := uint64(0); i < n.Val; i++ {
		v := st.loadPtr(VPtr{Obj: s.Obj, Path: []PathEl{{Index: Add(s.Off, Const(64, i)), Field: -1}}})
		st.storePtr(VPtr{Obj: d.Obj, Path: []PathEl{{Index: Add(d.Off, Const(64, i)), Field: -1}}}, v)
	}
	ex.noteObjWrite(st, d.Obj)
	return VInt{n}
}

// noteCopy: hook to flag silent truncation (copy into a too-small destination) for encoders.
func (ex *Exec) noteCopy(st *State, fr *Frame, c *ssa.Call, d VSlice, slen *Term) {
	if ex.topFC == nil || !ex.topFC.hasFlag("notrunc") || ex.inDiscovery() {
		return
	}
	ex.emit(st, fr, "enc/notrunc", ex.L.instrDetail(c), "copy does not truncate its source", ULe(slen, d.Len), nil, c.Pos())
}

func (fc *FuncContract) hasFlag(f string) bool {
	for _, g := range fc.Ghost {
		if g == f {
			return true
		}
	}
	return false
}

func (ex *Exec) appendBuiltin(st *State, fr *Frame, c *ssa.Call, dst, src Value, dstT types.Type) Value {
	d, ok := dst.(VSlice)
	if !ok {
		oos("append to %T", dst)
	}
	et := dstT.Underlying().(*types.Slice).Elem()
	if isByte(et) {
		smem, soff, slen, sobj := ex.bytesOf(st, src)
		_ = sobj
		var dmem *ByteMem = bmZeros
		fresh := true
		input := false
		if d.Obj != 0 {
			do := st.heap[d.Obj]
			dmem = do.Mem
			fresh = do.Fresh
			input = do.Input
		}
		nl := Add(d.Len, slen)
		st.assume(ULe(nl, Const(64, 1<<(maxLenBits+1))))
		// result content: dst[0:len] ++ src ; modelled on a new object (reallocation or in place: same content).
		nm := bmZeros.Copy(Const(64, 0), dmem, d.Off, d.Len).Copy(d.Len, smem, soff, slen)
		if d.Off.IsConst() && d.Off.Val == 0 {
			nm = dmem.Copy(d.Len, smem, soff, slen)
		}
		ncap := Fresh("appendcap", BV(64))
		st.assume(ULe(nl, ncap))
		st.assume(ULe(ncap, Const(64, 1<<(maxLenBits+2))))
		id := st.allocBytes(nm, ncap, fresh, "append")
		if input {
			o := *st.heap[id]
			o.Input = true
			st.heap[id] = &o
		}
		return VSlice{Obj: id, Off: Const(64, 0), Len: nl, Cap: ncap, Nil: False}
	}
	s, ok := src.(VSlice)
	if !ok {
		oos("append from %T", src)
	}
	nl := Add(d.Len, s.Len)
	st.assume(ULe(nl, Const(64, 1<<(maxLenBits+1))))
	ncap := Fresh("appendcap", BV(64))
	st.assume(ULe(nl, ncap))
	st.assume(ULe(ncap, Const(64, 1<<(maxLenBits+2))))
	fresh := true
	var base *SeqMem
	if d.Obj != 0 {
		do := st.heap[d.Obj]
		if do.Kind != okSeq {
			oos("append to non-sequence object")
		}
		fresh = do.Fresh
		base = do.Seq
		if !(d.Off.IsConst() && d.Off.Val == 0) {
			oos("append to re-sliced sequence")
		}
	}
	id := st.allocSeq(et, ncap, base == nil, fresh, "append")
	o := *st.heap[id]
	q := *o.Seq
	if base != nil {
		q.zero = base.zero
		q.name = base.name
		q.entries = append([]seqEntry{}, base.entries...)
		q.memo = append([]seqEntry{}, base.memo...)
		q.parent = base
		q.parentLen = d.Len
		if base.allWF != nil {
			q.allWF = map[string]*Term{}
			for pn, hi := range base.allWF {
				q.allWF[pn] = Ite(ULt(hi, d.Len), hi, d.Len)
			}
		}
	}
	// appended elements
	if s.Obj != 0 {
		if !s.Len.IsConst() {
			oos("append of symbolic-length element sequence")
		}
		for i := uint64(0); i < s.Len.Val; i++ {
			v := st.loadPtr(VPtr{Obj: s.Obj, Path: []PathEl{{Index: Add(s.Off, Const(64, i)), Field: -1}}})
			q.entries = append(q.entries, seqEntry{Add(d.Len, Const(64, i)), v})
		}
	}
	o.Seq = &q
	st.heap[id] = &o
	return VSlice{Obj: id, Off: Const(64, 0), Len: nl, Cap: ncap, Nil: False}
}

// assumeClauseLenient: a callee postcondition that speaks about the result through a type assertion the caller's
// state cannot decide (the result is an abstract interface value) is not assumed at this call site - assuming less
// is sound; the clause is still an obligation of the callee itself.
func (ex *Exec) assumeClauseLenient(st *State, env *Env, en *Clause) {
	defer func() {
		if r := recover(); r != nil {
			if ee, ok := r.(*execError); ok && ee.kind == "contract" && strings.Contains(ee.msg, "not decided by the dynamic type") {
				return
			}
			panic(r)
		}
	}()
	ex.assumeClause(st, env, en)
}
