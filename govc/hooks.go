package main

// Property-specific whole-program obligations (frame scans over the SSA of every repo function).

import (
	"fmt"
	"go/token"
	"go/types"
	"path/filepath"
	"sort"
	"strings"

	"golang.org/x/tools/go/ssa"
)

func init() {
	propHooks["C14"] = globalsHook
}

func scanOblig(name, class, clause string, ok bool, detail string) *Oblig {
	o := &Oblig{Name: name, Class: class, Func: "whole-program", Clause: clause, Goal: BoolC(ok), Backend: "frame-scan"}
	if ok {
		o.Status = "proved"
	} else {
		o.Status = "refuted"
		o.Output = detail
		o.Clause = clause + " — " + detail
	}
	return o
}

// inHookFile: declared in a verif-tagged hook file (zz_*_verif.go): lemma functions and their helpers are not
// library code.
func inHookFile(L *Loaded, pos token.Pos) bool {
	if !pos.IsValid() {
		return false
	}
	f := L.Fset.Position(pos).Filename
	b := filepath.Base(f)
	return strings.HasPrefix(b, "zz_") && strings.HasSuffix(b, "_verif.go")
}

func typeHasRefs(t types.Type, depth int) bool {
	if depth > 6 {
		return true
	}
	switch u := t.Underlying().(type) {
	case *types.Pointer, *types.Map, *types.Slice, *types.Chan, *types.Interface, *types.Signature:
		return true
	case *types.Struct:
		for i := 0; i < u.NumFields(); i++ {
			if typeHasRefs(u.Field(i).Type(), depth+1) {
				return true
			}
		}
	case *types.Array:
		return typeHasRefs(u.Elem(), depth+1)
	case *types.Tuple:
		for i := 0; i < u.Len(); i++ {
			if typeHasRefs(u.At(i).Type(), depth+1) {
				return true
			}
		}
	}
	return false
}

// globalsHook (C14): package-level state of the library.
//   - frame/global/<var>: outside package initialisation no function stores to the variable, updates it (maps),
//     or lets its address escape; for reference-typed variables additionally no reference loaded from it
//     reaches a store, a map update, a return, an interface box, a channel send or a call argument
//     (so callers can never obtain or mutate shared registry entries);
//   - frame/atomic-only/<var>: the transaction-id counter is referenced only as the first argument of
//     sync/atomic functions.
func globalsHook(L *Loaded) []*Oblig {
	var obs []*Oblig
	type use struct{ where, what string }
	atomicOnly := map[*ssa.Global][]use{} // non-atomic uses
	writes := map[*ssa.Global][]use{}
	leaks := map[*ssa.Global][]use{}
	var globals []*ssa.Global
	for _, sp := range L.SSAPkgs {
		for _, m := range sp.Members {
			if g, ok := m.(*ssa.Global); ok && !strings.HasPrefix(g.Name(), "init$") && !inHookFile(L, g.Pos()) {
				globals = append(globals, g)
			}
		}
	}
	sort.Slice(globals, func(i, j int) bool { return globals[i].String() < globals[j].String() })
	isRepoGlobal := func(v ssa.Value) *ssa.Global {
		g, ok := v.(*ssa.Global)
		if ok && g.Pkg != nil && strings.HasPrefix(g.Pkg.Pkg.Path(), repoModule) {
			return g
		}
		return nil
	}
	for fn := range L.AllFuncs {
		if !L.isRepoFunc(fn) || fn.Blocks == nil || inHookFile(L, fn.Pos()) {
			continue
		}
		isInit := fn.Name() == "init" || strings.HasPrefix(fn.Name(), "init#")
		if fn.Synthetic != "" && isInit {
			// package initialiser: establishes the values
		}
		fk := funcKey(fn)
		// addrOf[v]: v is an address inside global g; refOf[v]: v is a reference value loaded from g
		addrOf := map[ssa.Value]*ssa.Global{}
		refOf := map[ssa.Value]*ssa.Global{}
		changed := true
		for round := 0; changed && round < 20; round++ {
			changed = false
			set := func(m map[ssa.Value]*ssa.Global, v ssa.Value, g *ssa.Global) {
				if g != nil && m[v] == nil {
					m[v] = g
					changed = true
				}
			}
			for _, b := range fn.Blocks {
				for _, in := range b.Instrs {
					switch x := in.(type) {
					case *ssa.FieldAddr:
						if g := isRepoGlobal(x.X); g != nil {
							set(addrOf, x, g)
						}
						set(addrOf, x, addrOf[x.X])
						set(addrOf, x, refOf[x.X]) // address inside an object reached from the global
					case *ssa.IndexAddr:
						if g := isRepoGlobal(x.X); g != nil {
							set(addrOf, x, g)
						}
						set(addrOf, x, addrOf[x.X])
						set(addrOf, x, refOf[x.X])
					case *ssa.UnOp:
						if x.Op.String() == "*" {
							var g *ssa.Global
							if gg := isRepoGlobal(x.X); gg != nil {
								g = gg
							} else if a := addrOf[x.X]; a != nil {
								g = a
							}
							if g != nil && typeHasRefs(x.Type(), 0) {
								set(refOf, x, g)
							}
						}
					case *ssa.Lookup:
						if typeHasRefs(x.Type(), 0) {
							set(refOf, x, refOf[x.X])
						}
					case *ssa.Extract:
						if typeHasRefs(x.Type(), 0) {
							set(refOf, x, refOf[x.Tuple])
						}
					case *ssa.Phi:
						for _, e := range x.Edges {
							set(refOf, x, refOf[e])
							set(addrOf, x, addrOf[e])
						}
					case *ssa.ChangeType:
						set(refOf, x, refOf[x.X])
					case *ssa.Convert:
						if typeHasRefs(x.Type(), 0) {
							set(refOf, x, refOf[x.X])
						}
					case *ssa.Slice:
						set(refOf, x, isRepoGlobal(x.X))
						set(refOf, x, refOf[x.X])
						set(refOf, x, addrOf[x.X])
					case *ssa.Field:
						if typeHasRefs(x.Type(), 0) {
							set(refOf, x, refOf[x.X])
						}
					case *ssa.Index:
						if typeHasRefs(x.Type(), 0) {
							set(refOf, x, refOf[x.X])
						}
					case *ssa.MakeInterface:
						set(refOf, x, refOf[x.X])
						set(refOf, x, addrOf[x.X])
					case *ssa.TypeAssert:
						set(refOf, x, refOf[x.X])
					case *ssa.Next:
						set(refOf, x, refOf[x.Iter])
					case *ssa.Range:
						set(refOf, x, refOf[x.X])
					}
				}
			}
		}
		tainted := func(v ssa.Value) (*ssa.Global, string) {
			if g := isRepoGlobal(v); g != nil {
				return g, "address"
			}
			if g := addrOf[v]; g != nil {
				return g, "address"
			}
			if g := refOf[v]; g != nil {
				return g, "reference"
			}
			return nil, ""
		}
		note := func(m map[*ssa.Global][]use, g *ssa.Global, what string) {
			m[g] = append(m[g], use{fk, what})
		}
		for _, b := range fn.Blocks {
			for _, in := range b.Instrs {
				switch x := in.(type) {
				case *ssa.Store:
					if g, _ := tainted(x.Addr); g != nil && !isInit {
						note(writes, g, "store through "+x.Addr.Name())
					}
					if g, k := tainted(x.Val); g != nil && !isInit {
						note(leaks, g, k+" stored to memory")
					}
				case *ssa.MapUpdate:
					if g, _ := tainted(x.Map); g != nil && !isInit {
						note(writes, g, "map update")
					}
					if g, k := tainted(x.Value); g != nil && !isInit {
						note(leaks, g, k+" stored in a map")
					}
				case *ssa.Return:
					for _, r := range x.Results {
						if g, k := tainted(r); g != nil {
							note(leaks, g, k+" returned")
						}
					}
				case *ssa.Send:
					if g, k := tainted(x.X); g != nil {
						note(leaks, g, k+" sent on a channel")
					}
				case ssa.CallInstruction:
					com := x.Common()
					callee := ""
					if sc := com.StaticCallee(); sc != nil {
						callee = sc.String()
					}
					if bi, ok := com.Value.(*ssa.Builtin); ok {
						switch bi.Name() {
						case "len", "cap", "print", "println":
							continue
						}
						callee = "builtin " + bi.Name()
					}
					for i, a := range com.Args {
						g, k := tainted(a)
						if g == nil {
							continue
						}
						if strings.HasPrefix(callee, "sync/atomic.") && i == 0 && k == "address" {
							continue // atomic access
						}
						if isInit {
							continue
						}
						note(leaks, g, k+" passed to "+callee)
					}
					if com.IsInvoke() {
						if g, k := tainted(com.Value); g != nil && !isInit {
							note(leaks, g, k+" used as method receiver (interface)")
						}
					}
				}
				// non-atomic direct uses of scalar counters
				if _, isDbg := in.(*ssa.DebugRef); isDbg {
					continue
				}
				for _, op := range in.Operands(nil) {
					if op == nil || *op == nil {
						continue
					}
					if g := isRepoGlobal(*op); g != nil && !isInit {
						if c, ok := in.(ssa.CallInstruction); ok {
							if sc := c.Common().StaticCallee(); sc != nil && strings.HasPrefix(sc.String(), "sync/atomic.") && len(c.Common().Args) > 0 && c.Common().Args[0] == *op {
								continue
							}
						}
						atomicOnly[g] = append(atomicOnly[g], use{fk, fmt.Sprintf("%T", in)})
					}
				}
			}
		}
	}
	// which globals are written outside init via atomics (the counters)
	counters := map[*ssa.Global]bool{}
	for fn := range L.AllFuncs {
		if !L.isRepoFunc(fn) {
			continue
		}
		for _, b := range fn.Blocks {
			for _, in := range b.Instrs {
				if c, ok := in.(ssa.CallInstruction); ok {
					if sc := c.Common().StaticCallee(); sc != nil && strings.HasPrefix(sc.String(), "sync/atomic.") && len(c.Common().Args) > 0 {
						if g := isRepoGlobal(c.Common().Args[0]); g != nil {
							counters[g] = true
						}
					}
				}
			}
		}
	}
	fmtUses := func(us []use) string {
		var p []string
		for _, u := range us {
			p = append(p, u.where+": "+u.what)
		}
		sort.Strings(p)
		if len(p) > 6 {
			p = append(p[:6], "…")
		}
		return strings.Join(p, "; ")
	}
	for _, g := range globals {
		name := g.Pkg.Pkg.Name() + "." + g.Name()
		if counters[g] {
			us := atomicOnly[g]
			obs = append(obs, scanOblig("frame/atomic-only/"+name, "frame/atomic-only",
				"package-level counter "+name+" is referenced only as the first argument of sync/atomic functions", len(us) == 0, fmtUses(us)))
			continue
		}
		us := append(append([]use{}, writes[g]...), leaks[g]...)
		obs = append(obs, scanOblig("frame/global/"+name, "frame/global",
			"package-level variable "+name+" is never stored to, updated or leaked (by address or by contained reference) outside package initialisation", len(us) == 0, fmtUses(us)))
	}
	return obs
}
