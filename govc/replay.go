package main

// Counterexample replay: solver model -> Go test injected into the real package through
// `go test -overlay`, run against the real code.

import (
	"encoding/json"
	"fmt"
	"go/types"
	"os"
	"os/exec"
	"path/filepath"
	"sort"
	"strings"

	"golang.org/x/tools/go/ssa"
)

type Replay struct {
	Model      map[string]interface{}
	GoTest     string
	Run        map[string]interface{}
	PkgDir     string
	Reproduced bool
}

type Model struct {
	vars map[string]uint64
	arrs map[string]map[uint64]uint64
	apps map[int]uint64 // by term id
}

const arrProbe = 320

// solveModel re-solves a refuted obligation asking for the values of all variables, the first
// arrProbe bytes of every array and all uninterpreted applications.
func solveModel(o *Oblig) *Model {
	roots := append([]*Term{}, o.Hyps...)
	if o.Goal != nil {
		roots = append(roots, o.Goal)
	}
	// also the entry parameters' leaf terms
	var leaves []*Term
	seen := map[int]bool{}
	var visit func(t *Term)
	var apps []*Term
	var vars []*Term
	visit = func(t *Term) {
		if seen[t.id] {
			return
		}
		seen[t.id] = true
		if t.Op == "var" {
			vars = append(vars, t)
		}
		if t.Op == "app" && t.S.K != SArr {
			apps = append(apps, t)
		}
		for _, a := range t.Args {
			visit(a)
		}
	}
	for _, r := range roots {
		visit(r)
	}
	if o.entry != nil {
		collectLeafTerms(o, &leaves)
		for _, l := range leaves {
			visit(l)
		}
	}
	var req []*Term
	type slot struct {
		kind string
		name string
		idx  uint64
		id   int
	}
	var slots []slot
	for _, v := range vars {
		if v.S.K == SArr {
			for i := uint64(0); i < arrProbe; i++ {
				req = append(req, Select(v, Const(64, i)))
				slots = append(slots, slot{"arr", v.Name, i, 0})
			}
		} else {
			req = append(req, v)
			slots = append(slots, slot{"var", v.Name, 0, 0})
		}
	}
	for _, a := range apps {
		req = append(req, a)
		slots = append(slots, slot{"app", "", 0, a.id})
	}
	script := Script(o.Hyps, o.Goal, req)
	r := Solve(script, 20, len(req), "first")
	if r.Status != "sat" {
		return nil
	}
	m := &Model{vars: map[string]uint64{}, arrs: map[string]map[uint64]uint64{}, apps: map[int]uint64{}}
	for i, s := range slots {
		if i >= len(r.ValOK) || !r.ValOK[i] {
			continue
		}
		switch s.kind {
		case "var":
			m.vars[s.name] = r.Values[i]
		case "arr":
			if m.arrs[s.name] == nil {
				m.arrs[s.name] = map[uint64]uint64{}
			}
			m.arrs[s.name][s.idx] = r.Values[i]
		case "app":
			m.apps[s.id] = r.Values[i]
		}
	}
	return m
}

func collectLeafTerms(o *Oblig, out *[]*Term) {
	seen := map[int]bool{}
	var walk func(v Value, depth int)
	heap := o.entry.Heap
	walkObj := func(id int, depth int) {
		if id <= 0 || seen[id] || depth > 6 {
			return
		}
		seen[id] = true
		ob := heap[id]
		if ob == nil {
			return
		}
		if ob.Kind == okCell {
			walk(ob.Val, depth+1)
		}
		if ob.Kind == okSeq {
			// memo of the obligation-time heap (materialised elements)
			if cur := o.st.heap[id]; cur != nil && cur.Seq != nil {
				for _, e := range cur.Seq.memo {
					*out = append(*out, e.idx)
					walk(e.val, depth+1)
				}
			}
		}
	}
	walk = func(v Value, depth int) {
		switch x := v.(type) {
		case VInt:
			*out = append(*out, x.T)
		case VBool:
			*out = append(*out, x.T)
		case VStruct:
			for _, f := range x.F {
				walk(f, depth)
			}
		case VArray:
			for _, f := range x.E {
				walk(f, depth)
			}
		case VPtr:
			if x.Nil != nil {
				*out = append(*out, x.Nil)
			}
			walkObj(x.Obj, depth)
		case VSlice:
			*out = append(*out, x.Len, x.Cap, x.Off)
			if x.Nil != nil {
				*out = append(*out, x.Nil)
			}
			walkObj(x.Obj, depth)
		case VIface:
			if x.Nil != nil {
				*out = append(*out, x.Nil)
			}
			if x.Dyn != nil {
				walk(x.Val, depth)
			}
		}
	}
	for _, p := range o.entry.Params {
		walk(p, 0)
	}
}

// evalT evaluates a term under the model (unknown variables default to 0).
func (m *Model) evalT(t *Term) uint64 {
	memo := map[int]*Term{}
	var sub func(t *Term) *Term
	sub = func(t *Term) *Term {
		if r, ok := memo[t.id]; ok {
			return r
		}
		var r *Term
		switch t.Op {
		case "const":
			r = t
		case "var":
			if t.S.K == SArr {
				r = t
			} else if t.S.K == SBool {
				r = BoolC(m.vars[t.Name] != 0)
			} else {
				r = Const(t.S.W, m.vars[t.Name])
			}
		case "app":
			if t.S.K == SBool {
				r = BoolC(m.apps[t.id] != 0)
			} else if t.S.K == SBV {
				r = Const(t.S.W, m.apps[t.id])
			} else {
				r = t
			}
		case "select":
			arr := t.Args[0]
			idx := sub(t.Args[1])
			// walk stores
			for arr.Op == "store" {
				si := sub(arr.Args[1])
				if si == idx {
					r = sub(arr.Args[2])
					break
				}
				arr = arr.Args[0]
			}
			if r == nil {
				if arr.Op == "var" && idx.IsConst() {
					r = Const(8, m.arrs[arr.Name][idx.Val])
				} else {
					r = Const(8, 0)
				}
			}
		default:
			args := make([]*Term, len(t.Args))
			for i, a := range t.Args {
				args[i] = sub(a)
			}
			r = rebuild(t, args)
		}
		memo[t.id] = r
		return r
	}
	r := sub(t)
	if r.IsConst() {
		return r.Val
	}
	return 0
}

func rebuild(t *Term, a []*Term) *Term {
	switch t.Op {
	case "not":
		return Not(a[0])
	case "and":
		return And(a...)
	case "or":
		return Or(a...)
	case "ite":
		return Ite(a[0], a[1], a[2])
	case "=":
		return Eq(a[0], a[1])
	case "bvnot":
		return BNot(a[0])
	case "bvneg":
		return Neg(a[0])
	case "bvult", "bvule", "bvslt", "bvsle":
		return cmp(t.Op, a[0], a[1])
	case "extract":
		return Extract(t.A, t.B, a[0])
	case "zext":
		return ZExt(a[0], t.S.W)
	case "sext":
		return SExt(a[0], t.S.W)
	case "concat":
		return Concat(a[0], a[1])
	case "store":
		return Store(a[0], a[1], a[2])
	}
	return bin(t.Op, a[0], a[1])
}

func modelFor(o *Oblig) string {
	m := solveModel(o)
	if m == nil {
		return "(no model)"
	}
	var ks []string
	for k := range m.vars {
		ks = append(ks, k)
	}
	sort.Strings(ks)
	var sb strings.Builder
	for _, k := range ks {
		fmt.Fprintf(&sb, "%s=%#x ", k, m.vars[k])
	}
	for a, mm := range m.arrs {
		fmt.Fprintf(&sb, "%s=[", a)
		for i := uint64(0); i < 48; i++ {
			fmt.Fprintf(&sb, "%02x", mm[i])
		}
		sb.WriteString("…] ")
	}
	return sb.String()
}

// ---------- Go source generation ----------

type gen struct {
	L        *Loaded
	m        *Model
	o        *Oblig
	pkg      *types.Package
	imports  map[string]string // path -> name
	fail     string
	stubs    map[string]bool
	needBlen bool
}

func (g *gen) qual(p *types.Package) string {
	if p == g.pkg {
		return ""
	}
	g.imports[p.Path()] = p.Name()
	return p.Name()
}

func (g *gen) typ(t types.Type) string { return types.TypeString(t, g.qual) }

func (g *gen) value(v Value, t types.Type, depth int) string {
	if depth > 8 {
		g.fail = "value nesting too deep"
		return "nil"
	}
	heap := g.o.entry.Heap
	switch x := v.(type) {
	case VInt:
		val := g.m.evalT(x.T)
		_, signed, _ := intInfo(t)
		if signed {
			return fmt.Sprintf("%s(%d)", g.typ(t), Const(x.T.S.W, val).SVal())
		}
		return fmt.Sprintf("%s(%d)", g.typ(t), val)
	case VBool:
		if g.m.evalT(x.T) != 0 {
			return "true"
		}
		return "false"
	case VStr:
		if x.Lit != nil {
			return fmt.Sprintf("%q", *x.Lit)
		}
		return fmt.Sprintf("%q", fmt.Sprintf("s%d", g.m.evalT(x.ID)))
	case VStruct:
		st, ok := t.Underlying().(*types.Struct)
		if !ok {
			g.fail = "struct value for non-struct type"
			return "nil"
		}
		var parts []string
		for i, f := range x.F {
			fld := st.Field(i)
			if !fld.Exported() && fld.Pkg() != g.pkg {
				// cannot set foreign unexported fields (e.g. bytes.Buffer internals): handled by caller for Buffer
				continue
			}
			parts = append(parts, fmt.Sprintf("%s: %s", fld.Name(), g.value(f, fld.Type(), depth+1)))
		}
		if isBytesBuffer(t) {
			return g.bytesBuffer(x, t)
		}
		return fmt.Sprintf("%s{%s}", g.typ(t), strings.Join(parts, ", "))
	case VArray:
		at := t.Underlying().(*types.Array)
		var parts []string
		for _, e := range x.E {
			parts = append(parts, g.value(e, at.Elem(), depth+1))
		}
		return fmt.Sprintf("%s{%s}", g.typ(t), strings.Join(parts, ", "))
	case VPtr:
		if x.Obj == 0 || (x.Nil != nil && g.m.evalT(x.Nil) != 0) {
			return "nil"
		}
		if x.Obj < 0 {
			return "nil"
		}
		ob := heap[x.Obj]
		if ob == nil || ob.Kind != okCell || len(x.Path) > 0 {
			g.fail = "pointer into non-cell object"
			return "nil"
		}
		et := t.Underlying().(*types.Pointer).Elem()
		inner := g.value(ob.Val, et, depth+1)
		if _, isStruct := et.Underlying().(*types.Struct); isStruct && !isBytesBuffer(et) {
			return "&" + inner
		}
		return fmt.Sprintf("func() %s { v := %s; return &v }()", g.typ(t), inner)
	case VSlice:
		if x.Obj == 0 || (x.Nil != nil && g.m.evalT(x.Nil) != 0) {
			return fmt.Sprintf("%s(nil)", g.typ(t))
		}
		ln := g.m.evalT(x.Len)
		if ln > 1<<16 {
			g.fail = fmt.Sprintf("slice length %d too large to replay", ln)
			return "nil"
		}
		ob := heap[x.Obj]
		if ob == nil {
			g.fail = "slice of unknown object"
			return "nil"
		}
		et := t.Underlying().(*types.Slice).Elem()
		off := g.m.evalT(x.Off)
		if ob.Kind == okBytes {
			var sb strings.Builder
			for i := uint64(0); i < ln; i++ {
				if i > 0 {
					sb.WriteString(",")
				}
				fmt.Fprintf(&sb, "%d", g.m.evalT(ob.Mem.Read(Const(64, off+i))))
			}
			capv := g.m.evalT(x.Cap)
			if capv > ln && capv-ln <= 1<<12 {
				return fmt.Sprintf("append(make(%s, 0, %d), %s{%s}...)", g.typ(t), capv, g.typ(t), sb.String())
			}
			return fmt.Sprintf("%s{%s}", g.typ(t), sb.String())
		}
		// element sequence: known elements from the obligation-time memo
		elems := make([]string, ln)
		zero := g.zero(et)
		for i := range elems {
			elems[i] = zero
		}
		if cur := g.o.st.heap[x.Obj]; cur != nil && cur.Seq != nil {
			for _, e := range cur.Seq.memo {
				i := g.m.evalT(e.idx) - off
				if i < ln {
					elems[i] = g.value(e.val, et, depth+1)
				}
			}
		}
		return fmt.Sprintf("%s{%s}", g.typ(t), strings.Join(elems, ", "))
	case VIface:
		if x.Dyn != nil {
			if x.Dyn == opaqueErrType {
				g.imports["errors"] = "errors"
				return `errors.New("e")`
			}
			return g.value(x.Val, x.Dyn, depth+1)
		}
		if x.ID == nil || (x.Nil != nil && g.m.evalT(x.Nil) != 0) {
			return "nil"
		}
		return g.stub(x, t)
	case VOpaque:
		return g.zero(t)
	}
	g.fail = fmt.Sprintf("cannot generate value of %T", v)
	return "nil"
}

func isBytesBuffer(t types.Type) bool {
	tn, ok := t.(*types.Named)
	return ok && tn.Obj().Pkg() != nil && tn.Obj().Pkg().Path() == "bytes" && tn.Obj().Name() == "Buffer"
}

func (g *gen) bytesBuffer(x VStruct, t types.Type) string {
	g.imports["bytes"] = "bytes"
	bi, oi := bufferFieldIdx(t, "buf"), bufferFieldIdx(t, "off")
	buf := x.F[bi].(VSlice)
	off := g.m.evalT(x.F[oi].(VInt).T)
	ln := g.m.evalT(buf.Len)
	if buf.Obj == 0 || ln > 1<<16 || off > ln {
		return "bytes.Buffer{}"
	}
	ob := g.o.entry.Heap[buf.Obj]
	var sb strings.Builder
	bo := g.m.evalT(buf.Off)
	for i := off; i < ln; i++ {
		if i > off {
			sb.WriteString(",")
		}
		fmt.Fprintf(&sb, "%d", g.m.evalT(ob.Mem.Read(Const(64, bo+i))))
	}
	return fmt.Sprintf("*bytes.NewBuffer([]byte{%s})", sb.String())
}

func (g *gen) zero(t types.Type) string {
	switch u := t.Underlying().(type) {
	case *types.Basic:
		if _, _, ok := intInfo(u); ok {
			return g.typ(t) + "(0)"
		}
		if isBool(u) {
			return "false"
		}
		if isString(u) {
			return `""`
		}
	case *types.Struct, *types.Array:
		return g.typ(t) + "{}"
	}
	return "nil"
}

// stub: an abstract interface value (unknown dynamic type) is concretised by a stub implementing
// util.Message with the model's size; only available for interfaces whose method set is util.Message.
func (g *gen) stub(x VIface, t types.Type) string {
	it, ok := t.Underlying().(*types.Interface)
	if !ok {
		g.fail = "abstract non-interface"
		return "nil"
	}
	names := map[string]bool{}
	for i := 0; i < it.NumMethods(); i++ {
		names[it.Method(i).Name()] = true
	}
	if len(names) == 3 && names["Len"] && names["MarshalBinary"] && names["UnmarshalBinary"] {
		g.stubs["msg"] = true
		sz := uint64(0)
		for id, v := range g.m.apps {
			_ = id
			_ = v
		}
		// find size application on this identity
		for _, tt := range termTab {
			if tt.Op == "app" && tt.Name == "spec:size" && len(tt.Args) == 1 && tt.Args[0] == x.ID {
				sz = g.m.apps[tt.id]
			}
		}
		if sz > 1<<16 {
			g.fail = "stub size too large"
		}
		return fmt.Sprintf("&govcStubMsg{n: %d}", sz)
	}
	g.fail = "no stub for interface " + g.typ(t)
	return "nil"
}

const stubMsgSrc = `
type govcStubMsg struct{ n int }

func (s *govcStubMsg) Len() uint16                    { return uint16(s.n) }
func (s *govcStubMsg) MarshalBinary() ([]byte, error) { return make([]byte, s.n), nil }
func (s *govcStubMsg) UnmarshalBinary(b []byte) error { return nil }
`

func buildReplay(L *Loaded, o *Oblig, repo string) *Replay {
	if o.entry == nil || o.entry.Fn == nil {
		return nil
	}
	m := solveModel(o)
	if m == nil {
		return nil
	}
	fn := o.entry.Fn
	pk := fn.Pkg
	if pk == nil && fn.Origin() != nil {
		pk = fn.Origin().Pkg
	}
	if pk == nil {
		return nil
	}
	g := &gen{L: L, m: m, o: o, pkg: pk.Pkg, imports: map[string]string{"testing": "testing", "time": "time", "fmt": "fmt"}, stubs: map[string]bool{}}
	rp := &Replay{Model: map[string]interface{}{}}
	for k, v := range m.vars {
		rp.Model[k] = v
	}
	for a, mm := range m.arrs {
		var sb strings.Builder
		for i := uint64(0); i < 96; i++ {
			fmt.Fprintf(&sb, "%02x", mm[i])
		}
		rp.Model[a] = sb.String()
	}
	// build argument expressions
	var decl []string
	var argNames []string
	fc := o.entry.FC
	for i, p := range fn.Params {
		name := fmt.Sprintf("a%d", i)
		if fc != nil && i < len(fc.Params) {
			name = fc.Params[i]
		}
		decl = append(decl, fmt.Sprintf("%s := %s", name, g.value(o.entry.Params[i], p.Type(), 0)))
		decl = append(decl, fmt.Sprintf("_ = %s", name))
		argNames = append(argNames, name)
	}
	if g.fail != "" {
		rp.Run = map[string]interface{}{"verdict": "not-run", "reason": g.fail}
		return rp
	}
	// call expression
	var call string
	if fn.Signature.Recv() != nil {
		call = fmt.Sprintf("%s.%s(%s)", argNames[0], fn.Name(), strings.Join(argNames[1:], ", "))
	} else {
		if strings.Contains(fn.Name(), "[") || fn.Origin() != nil && fn.Origin() != fn {
			rp.Run = map[string]interface{}{"verdict": "not-run", "reason": "generic instantiation"}
			return rp
		}
		if fn.Parent() != nil {
			rp.Run = map[string]interface{}{"verdict": "not-run", "reason": "closure"}
			return rp
		}
		call = fmt.Sprintf("%s(%s)", fn.Name(), strings.Join(argNames, ", "))
	}
	nres := fn.Signature.Results().Len()
	var resNames []string
	for i := 0; i < nres; i++ {
		n := fmt.Sprintf("r%d", i)
		if fc != nil && i < len(fc.Results) {
			n = fc.Results[i]
		}
		resNames = append(resNames, n)
	}
	callStmt := call
	if nres > 0 {
		callStmt = strings.Join(resNames, ", ") + " := " + call
	}
	check := ""
	if strings.HasPrefix(o.Class, "post") && fc != nil {
		txt := strings.TrimPrefix(o.Clause, "ensures ")
		for name := range g.L.Contracts.Specs {
			replaySpecNames[name] = true
		}
		if goEvaluable(txt) {
			expr := rewriteImplies(strings.ReplaceAll(txt, "#k", "__k"))
			check = fmt.Sprintf("if !(%s) { done <- \"POSTCONDITION VIOLATED: %s\"; return }", expr, strings.ReplaceAll(txt, `"`, `'`))
		} else {
			rp.Run = map[string]interface{}{"verdict": "not-run", "reason": "postcondition uses spec-only constructs"}
			return rp
		}
	} else if strings.HasPrefix(o.Class, "own") && fn.Signature.Recv() != nil {
		// decode, snapshot the result, scribble over every input buffer, compare
		g.imports["encoding/json"] = "json"
		var scribble []string
		for i, p := range fn.Params {
			if isByteSlice(p.Type()) {
				scribble = append(scribble, fmt.Sprintf("for k := range %s { %s[k] ^= 0xff }", argNames[i], argNames[i]))
			}
		}
		check = fmt.Sprintf("before, _ := json.Marshal(%s)\n\t\t%s\n\t\tafter, _ := json.Marshal(%s)\n\t\tif string(before) != string(after) { done <- \"RESULT CHANGED when the input buffer was overwritten: \" + string(before) + \" -> \" + string(after); return }", argNames[0], strings.Join(scribble, "; "), argNames[0])
	} else if !strings.HasPrefix(o.Class, "safety") && !strings.HasPrefix(o.Class, "term") {
		rp.Run = map[string]interface{}{"verdict": "not-run", "reason": "no dynamic oracle for class " + o.Class}
		return rp
	}
	var use []string
	for _, r := range resNames {
		use = append(use, "_ = "+r)
	}
	if strings.Contains(check, "blen(") {
		g.needBlen = true
		g.imports["reflect"] = "reflect"
		g.imports["bytes"] = "bytes"
	}
	var sb strings.Builder
	fmt.Fprintf(&sb, "package %s\n\nimport (\n", pk.Pkg.Name())
	var ips []string
	for p := range g.imports {
		ips = append(ips, p)
	}
	sort.Strings(ips)
	for _, p := range ips {
		fmt.Fprintf(&sb, "\t%q\n", p)
	}
	sb.WriteString(")\n\nfunc imp(a, b bool) bool { return !a || b }\n")
	sb.WriteString("func be16(s []byte, o int) uint16 { return uint16(s[o])<<8 | uint16(s[o+1]) }\n")
	sb.WriteString("func be32(s []byte, o int) uint32 { return uint32(be16(s, o))<<16 | uint32(be16(s, o+2)) }\n")
	sb.WriteString("func be64(s []byte, o int) uint64 { return uint64(be32(s, o))<<32 | uint64(be32(s, o+4)) }\n")
	sb.WriteString("func u8(s []byte, o int) uint8 { return s[o] }\n")
	sb.WriteString("func bytes_eq(a []byte, ao int, b []byte, bo int, n int) bool {\n\tfor k := 0; k < n; k++ {\n\t\tif a[ao+k] != b[bo+k] {\n\t\t\treturn false\n\t\t}\n\t}\n\treturn true\n}\n")
	if g.needBlen {
		sb.WriteString("func blen(x interface{}) int {\n\tv := reflect.ValueOf(x)\n\tfor v.Kind() == reflect.Ptr {\n\t\tif v.IsNil() {\n\t\t\treturn 0\n\t\t}\n\t\tv = v.Elem()\n\t}\n\tif v.Type().String() != \"bytes.Buffer\" {\n\t\tv = v.FieldByName(\"Buffer\")\n\t}\n\tbb := v.Interface().(bytes.Buffer)\n\treturn (&bb).Len()\n}\n")
	}
	if g.stubs["msg"] {
		sb.WriteString(stubMsgSrc)
	}
	fmt.Fprintf(&sb, "\n// obligation: %s\n// clause: %s\nfunc TestGovcReplay(t *testing.T) {\n\tdone := make(chan string, 1)\n\tgo func() {\n\t\tdefer func() {\n\t\t\tif r := recover(); r != nil {\n\t\t\t\tdone <- fmt.Sprintf(\"PANIC: %%v\", r)\n\t\t\t}\n\t\t}()\n", o.Name, strings.ReplaceAll(o.Clause, "\n", " "))
	for _, d := range decl {
		fmt.Fprintf(&sb, "\t\t%s\n", d)
	}
	fmt.Fprintf(&sb, "\t\t%s\n", callStmt)
	for _, u := range use {
		fmt.Fprintf(&sb, "\t\t%s\n", u)
	}
	if check != "" {
		fmt.Fprintf(&sb, "\t\t%s\n", check)
	}
	sb.WriteString("\t\tdone <- \"ok\"\n\t}()\n\tselect {\n\tcase m := <-done:\n\t\tif m != \"ok\" {\n\t\t\tt.Fatalf(\"GOVC-REPRODUCED %s\", m)\n\t\t}\n\tcase <-time.After(3 * time.Second):\n\t\tt.Fatalf(\"GOVC-REPRODUCED no return within 3s (non-termination)\")\n\t}\n}\n")
	rp.GoTest = sb.String()
	rel := strings.TrimPrefix(strings.TrimPrefix(pk.Pkg.Path(), repoModule), "/")
	rp.PkgDir = rel
	rp.Run = runReplayTest(repo, rel, rp.GoTest)
	if v, _ := rp.Run["verdict"].(string); v == "reproduced" {
		// the expected failure kind must match the obligation class
		out, _ := rp.Run["output"].(string)
		switch {
		case strings.HasPrefix(o.Class, "safety"):
			rp.Reproduced = strings.Contains(out, "GOVC-REPRODUCED PANIC")
		case strings.HasPrefix(o.Class, "term"):
			rp.Reproduced = strings.Contains(out, "no return within") || strings.Contains(out, "GOVC-REPRODUCED PANIC")
		default:
			rp.Reproduced = strings.Contains(out, "GOVC-REPRODUCED")
		}
	}
	return rp
}

// replaySpecNames: user spec functions of the loaded contracts (not executable in a replay test)
var replaySpecNames = map[string]bool{}

func goEvaluable(txt string) bool {
	for _, bad := range []string{"old(", "size(", "sum(", "fresh(", "typeis(", "sametype(", "allzero(", "wf(", "wfl(", "pad8(", "ite(", "bbyte(", "bbe16(", "bbe32(", "bbe64(", "bbytes_eq(", "sbytes_eq(", "bzero(", "allwf(", "allwfl("} {
		if strings.Contains(txt, bad) {
			return false
		}
	}
	for name := range replaySpecNames {
		if strings.Contains(txt, name+"(") {
			return false
		}
	}
	return true
}

func runReplayTest(repo, rel, src string) map[string]interface{} {
	dir := scratch()
	tf := filepath.Join(dir, fmt.Sprintf("zz_govc_replay_%d_test.go", os.Getpid()))
	os.WriteFile(tf, []byte(src), 0o644)
	target := filepath.Join(repo, rel, "zz_govc_replay_test.go")
	ov := map[string]interface{}{"Replace": map[string]string{target: tf}}
	ovf := filepath.Join(dir, fmt.Sprintf("overlay_%d.json", os.Getpid()))
	data, _ := json.Marshal(ov)
	os.WriteFile(ovf, data, 0o644)
	pkgArg := "./" + rel + "/"
	if rel == "" {
		pkgArg = "./"
	}
	cmdline := fmt.Sprintf("ulimit -v 16000000; go test -tags=verif -overlay %s -vet=off -count=1 -timeout 60s -run '^TestGovcReplay$' %s", ovf, pkgArg)
	cmd := exec.Command("sh", "-c", cmdline)
	cmd.Dir = repo
	cmd.Env = append(os.Environ(), "GOFLAGS=-mod=mod", "GOPROXY=off", "GOSUMDB=off", "GOTOOLCHAIN=local")
	out, err := cmd.CombinedOutput()
	verdict := "not-reproduced"
	s := string(out)
	if strings.Contains(s, "GOVC-REPRODUCED") {
		verdict = "reproduced"
	} else if err != nil && !strings.Contains(s, "ok ") {
		if strings.Contains(s, "panic:") || strings.Contains(s, "fatal error") {
			verdict = "reproduced"
			s = "GOVC-REPRODUCED PANIC (process crashed)\n" + s
		} else {
			verdict = "replay-build-failed"
		}
	}
	return map[string]interface{}{"cmd": "cd " + repo + " && " + cmdline, "verdict": verdict, "output": trunc(s, 6000)}
}

func cmdReplay(args []string) int {
	if len(args) < 1 {
		return 2
	}
	data, err := os.ReadFile(args[0])
	if err != nil {
		fmt.Fprintln(os.Stderr, err)
		return 2
	}
	var rep map[string]interface{}
	json.Unmarshal(data, &rep)
	src, _ := rep["go_test"].(string)
	rel, _ := rep["replay_pkg_dir"].(string)
	fmt.Printf("obligation: %v\nclause: %v\n", rep["obligation"], rep["clause"])
	if src == "" {
		fmt.Println("no executable replay stored (no-failing-input-found); solver output:")
		if s, ok := rep["solver"].(map[string]interface{}); ok {
			fmt.Println(s["output"])
		}
		return 1
	}
	repo := "/repo"
	if len(args) > 1 {
		repo = args[1]
	}
	r := runReplayTest(repo, rel, src)
	fmt.Println(r["output"])
	fmt.Println("verdict:", r["verdict"])
	if r["verdict"] == "reproduced" {
		return 1
	}
	return 0
}

func cmdSelftest(args []string) int {
	fmt.Println("selftest is driven by /verif/selftest/run.sh")
	return 0
}

var _ = ssa.NewProgram
