package main

// Hash-consed term DAG over Bool, fixed-width bit-vectors (<= 64 bit constants) and
// byte arrays (Array (_ BitVec 64) (_ BitVec 8)), with a sound constructor-time simplifier
// and an SMT-LIB2 printer.  Every Go integer is a bit-vector of its Go width.

import (
	"fmt"
	"sort"
	"strings"
)

type SortKind int

const (
	SBool SortKind = iota
	SBV
	SArr // (Array (_ BitVec 64) (_ BitVec 8))
)

type Sort struct {
	K SortKind
	W int
}

func (s Sort) String() string {
	switch s.K {
	case SBool:
		return "Bool"
	case SBV:
		return fmt.Sprintf("(_ BitVec %d)", s.W)
	}
	return "(Array (_ BitVec 64) (_ BitVec 8))"
}

var BoolSort = Sort{SBool, 0}
var ArrSort = Sort{SArr, 0}

func BV(w int) Sort { return Sort{SBV, w} }

type Term struct {
	Op   string // "const","var","not","and","or","ite","=","bvadd",... "extract","zext","sext","select","store","app"
	Args []*Term
	S    Sort
	Val  uint64 // const value (bool: 0/1)
	Name string // var / app name
	A, B int    // extract hi, lo ; zext/sext amount in A
	key  string
	id   int
}

var termTab = map[string]*Term{}
var termSeq int

func mk(t *Term) *Term {
	var sb strings.Builder
	sb.WriteString(t.Op)
	sb.WriteByte('|')
	sb.WriteString(t.Name)
	fmt.Fprintf(&sb, "|%d|%d|%d|%d|%d", t.S.K, t.S.W, t.Val, t.A, t.B)
	for _, a := range t.Args {
		fmt.Fprintf(&sb, "|%d", a.id)
	}
	k := sb.String()
	if x, ok := termTab[k]; ok {
		return x
	}
	termSeq++
	t.id = termSeq
	t.key = k
	termTab[k] = t
	return t
}

func mask(w int) uint64 {
	if w >= 64 {
		return ^uint64(0)
	}
	return (uint64(1) << uint(w)) - 1
}

func Const(w int, v uint64) *Term { return mk(&Term{Op: "const", S: BV(w), Val: v & mask(w)}) }
func BoolC(b bool) *Term {
	if b {
		return mk(&Term{Op: "const", S: BoolSort, Val: 1})
	}
	return mk(&Term{Op: "const", S: BoolSort, Val: 0})
}

var True = BoolC(true)
var False = BoolC(false)

var varSorts = map[string]Sort{}

func Var(name string, s Sort) *Term {
	if old, ok := varSorts[name]; ok && old != s {
		panic("var sort clash " + name)
	}
	varSorts[name] = s
	return mk(&Term{Op: "var", Name: name, S: s})
}

var freshCtr = map[string]int{}

// Fresh returns a new variable whose name starts with the given (sanitised) hint.
func Fresh(hint string, s Sort) *Term {
	hint = sanitize(hint)
	freshCtr[hint]++
	n := freshCtr[hint]
	name := hint
	if n > 1 {
		name = fmt.Sprintf("%s!%d", hint, n)
	}
	if _, ok := varSorts[name]; ok {
		return Fresh(hint, s)
	}
	return Var(name, s)
}

func sanitize(s string) string {
	var sb strings.Builder
	for _, r := range s {
		switch {
		case r >= 'a' && r <= 'z', r >= 'A' && r <= 'Z', r >= '0' && r <= '9', r == '_', r == '.', r == '!', r == '#', r == '$', r == '@', r == '-', r == '+', r == '[', r == ']', r == '*':
			sb.WriteRune(r)
		default:
			sb.WriteByte('_')
		}
	}
	return sb.String()
}

func (t *Term) IsConst() bool { return t.Op == "const" }
func (t *Term) IsTrue() bool  { return t == True }
func (t *Term) IsFalse() bool { return t == False }

// signed value of a constant
func (t *Term) SVal() int64 {
	w := t.S.W
	v := t.Val
	if w < 64 && v&(uint64(1)<<uint(w-1)) != 0 {
		v |= ^mask(w)
	}
	return int64(v)
}

// ---------- Boolean connectives ----------

func Not(a *Term) *Term {
	if a.IsTrue() {
		return False
	}
	if a.IsFalse() {
		return True
	}
	if a.Op == "not" {
		return a.Args[0]
	}
	return mk(&Term{Op: "not", Args: []*Term{a}, S: BoolSort})
}

func And(as ...*Term) *Term {
	var out []*Term
	seen := map[int]bool{}
	for _, a := range as {
		if a.IsFalse() {
			return False
		}
		if a.IsTrue() {
			continue
		}
		if a.Op == "and" {
			for _, b := range a.Args {
				if !seen[b.id] {
					seen[b.id] = true
					out = append(out, b)
				}
			}
			continue
		}
		if !seen[a.id] {
			seen[a.id] = true
			out = append(out, a)
		}
	}
	for _, a := range out {
		if a.Op == "not" && seen[a.Args[0].id] {
			return False
		}
	}
	if len(out) == 0 {
		return True
	}
	if len(out) == 1 {
		return out[0]
	}
	return mk(&Term{Op: "and", Args: out, S: BoolSort})
}

func Or(as ...*Term) *Term {
	var out []*Term
	seen := map[int]bool{}
	for _, a := range as {
		if a.IsTrue() {
			return True
		}
		if a.IsFalse() {
			continue
		}
		if a.Op == "or" {
			for _, b := range a.Args {
				if !seen[b.id] {
					seen[b.id] = true
					out = append(out, b)
				}
			}
			continue
		}
		if !seen[a.id] {
			seen[a.id] = true
			out = append(out, a)
		}
	}
	for _, a := range out {
		if a.Op == "not" && seen[a.Args[0].id] {
			return True
		}
	}
	if len(out) == 0 {
		return False
	}
	if len(out) == 1 {
		return out[0]
	}
	return mk(&Term{Op: "or", Args: out, S: BoolSort})
}

func Implies(a, b *Term) *Term { return Or(Not(a), b) }

func Ite(c, a, b *Term) *Term {
	if c.IsTrue() {
		return a
	}
	if c.IsFalse() {
		return b
	}
	if a == b {
		return a
	}
	if a.S != b.S {
		panic(fmt.Sprintf("ite sort mismatch %v %v", a.S, b.S))
	}
	if a.S.K == SBool {
		if a.IsTrue() && b.IsFalse() {
			return c
		}
		if a.IsFalse() && b.IsTrue() {
			return Not(c)
		}
		if a.IsTrue() {
			return Or(c, b)
		}
		if a.IsFalse() {
			return And(Not(c), b)
		}
		if b.IsTrue() {
			return Or(Not(c), a)
		}
		if b.IsFalse() {
			return And(c, a)
		}
	}
	return mk(&Term{Op: "ite", Args: []*Term{c, a, b}, S: a.S})
}

func Eq(a, b *Term) *Term {
	if a.S != b.S {
		panic(fmt.Sprintf("eq sort mismatch %v %v: %s / %s", a.S, b.S, a, b))
	}
	if a == b {
		return True
	}
	if a.IsConst() && b.IsConst() {
		return BoolC(a.Val == b.Val)
	}
	if a.S.K == SBool {
		if a.IsTrue() {
			return b
		}
		if b.IsTrue() {
			return a
		}
		if a.IsFalse() {
			return Not(b)
		}
		if b.IsFalse() {
			return Not(a)
		}
	}
	if a.S.K == SBV && (linOp(a) || linOp(b)) {
		if d := bin("bvsub", a, b); d.IsConst() {
			return BoolC(d.Val == 0)
		}
	}
	// zext(x) == const with high bits set  -> false ; zext(x)==zext(y)
	if a.IsConst() {
		a, b = b, a
	}
	if b.IsConst() && a.Op == "zext" {
		inner := a.Args[0]
		if b.Val&^mask(inner.S.W) != 0 {
			return False
		}
		return Eq(inner, Const(inner.S.W, b.Val))
	}
	if a.Op == "zext" && b.Op == "zext" && a.Args[0].S == b.Args[0].S {
		return Eq(a.Args[0], b.Args[0])
	}
	if b.IsConst() && a.Op == "ite" && a.Args[1].IsConst() && a.Args[2].IsConst() {
		return Ite(a.Args[0], BoolC(a.Args[1].Val == b.Val), BoolC(a.Args[2].Val == b.Val))
	}
	if a.id > b.id {
		a, b = b, a
	}
	return mk(&Term{Op: "=", Args: []*Term{a, b}, S: BoolSort})
}

func Ne(a, b *Term) *Term { return Not(Eq(a, b)) }

// ---------- bit-vector operations ----------

func bin(op string, a, b *Term) *Term {
	if a.S != b.S || a.S.K != SBV {
		panic(fmt.Sprintf("%s sort mismatch %v %v (%s, %s)", op, a.S, b.S, a, b))
	}
	w := a.S.W
	if a.IsConst() && b.IsConst() {
		x, y := a.Val, b.Val
		var r uint64
		ok := true
		switch op {
		case "bvadd":
			r = x + y
		case "bvsub":
			r = x - y
		case "bvmul":
			r = x * y
		case "bvand":
			r = x & y
		case "bvor":
			r = x | y
		case "bvxor":
			r = x ^ y
		case "bvshl":
			if y >= uint64(w) {
				r = 0
			} else {
				r = x << y
			}
		case "bvlshr":
			if y >= uint64(w) {
				r = 0
			} else {
				r = x >> y
			}
		case "bvashr":
			sx := a.SVal()
			if y >= uint64(w) {
				if sx < 0 {
					r = ^uint64(0)
				} else {
					r = 0
				}
			} else {
				r = uint64(sx >> y)
			}
		case "bvudiv":
			if y == 0 {
				r = mask(w)
			} else {
				r = x / y
			}
		case "bvurem":
			if y == 0 {
				r = x
			} else {
				r = x % y
			}
		case "bvsdiv":
			sx, sy := a.SVal(), b.SVal()
			if sy == 0 {
				ok = false
			} else if sy == -1 {
				r = uint64(-sx)
			} else {
				r = uint64(sx / sy)
			}
		case "bvsrem":
			sx, sy := a.SVal(), b.SVal()
			if sy == 0 {
				ok = false
			} else if sy == -1 {
				r = 0
			} else {
				r = uint64(sx % sy)
			}
		default:
			ok = false
		}
		if ok {
			return Const(w, r)
		}
	}
	if (op == "bvadd" || op == "bvsub") && (linOp(a) || linOp(b)) {
		if r := linNormal(op, a, b); r != nil {
			return r
		}
	}
	switch op {
	case "bvadd":
		if a.IsConst() {
			a, b = b, a
		}
		if b.IsConst() && b.Val == 0 {
			return a
		}
		// (x + c1) + c2
		if b.IsConst() && a.Op == "bvadd" && a.Args[1].IsConst() {
			return bin("bvadd", a.Args[0], Const(w, a.Args[1].Val+b.Val))
		}
		if b.IsConst() && a.Op == "bvsub" && a.Args[1].IsConst() {
			return bin("bvadd", a.Args[0], Const(w, b.Val-a.Args[1].Val))
		}
		// (x - y) + y
		if a.Op == "bvsub" && a.Args[1] == b {
			return a.Args[0]
		}
		if b.Op == "bvsub" && b.Args[1] == a {
			return b.Args[0]
		}
	case "bvsub":
		if b.IsConst() && b.Val == 0 {
			return a
		}
		if a == b {
			return Const(w, 0)
		}
		if b.IsConst() {
			return bin("bvadd", a, Const(w, -b.Val))
		}
		// (x + y) - y, (x + y) - x
		if a.Op == "bvadd" {
			if a.Args[1] == b {
				return a.Args[0]
			}
			if a.Args[0] == b {
				return a.Args[1]
			}
			// (x + c) - (x + d)
			if b.Op == "bvadd" && a.Args[0] == b.Args[0] && a.Args[1].IsConst() && b.Args[1].IsConst() {
				return Const(w, a.Args[1].Val-b.Args[1].Val)
			}
			// (x + c) - (y + d) => (x - y) + (c-d)
			if b.Op == "bvadd" && a.Args[1].IsConst() && b.Args[1].IsConst() {
				return bin("bvadd", bin("bvsub", a.Args[0], b.Args[0]), Const(w, a.Args[1].Val-b.Args[1].Val))
			}
		}
		if b.Op == "bvadd" && b.Args[0] == a && b.Args[1].IsConst() {
			return Const(w, -b.Args[1].Val)
		}
	case "bvmul":
		if a.IsConst() {
			a, b = b, a
		}
		if b.IsConst() && b.Val == 1 {
			return a
		}
		if b.IsConst() && b.Val == 0 {
			return b
		}
	case "bvand":
		if a.IsConst() {
			a, b = b, a
		}
		if b.IsConst() && b.Val == 0 {
			return b
		}
		if b.IsConst() && b.Val == mask(w) {
			return a
		}
		if a == b {
			return a
		}
		// zext(x) & c where c covers all bits of x
		if b.IsConst() && a.Op == "zext" && b.Val&mask(a.Args[0].S.W) == mask(a.Args[0].S.W) {
			return a
		}
	case "bvor", "bvxor":
		if a.IsConst() {
			a, b = b, a
		}
		if b.IsConst() && b.Val == 0 {
			return a
		}
		if a == b && op == "bvor" {
			return a
		}
		if a == b && op == "bvxor" {
			return Const(w, 0)
		}
	case "bvshl", "bvlshr", "bvashr":
		if b.IsConst() && b.Val == 0 {
			return a
		}
		if b.IsConst() && b.Val >= uint64(w) && op != "bvashr" {
			return Const(w, 0)
		}
	case "bvudiv", "bvsdiv":
		if b.IsConst() && b.Val == 1 {
			return a
		}
	}
	return mk(&Term{Op: op, Args: []*Term{a, b}, S: a.S})
}

// ---- linear normal form of sums (modular arithmetic, so sound for every width) ----

func linOp(t *Term) bool {
	switch t.Op {
	case "bvadd", "bvsub", "bvneg":
		return true
	case "bvmul":
		return t.Args[0].IsConst() || t.Args[1].IsConst()
	}
	return false
}

type linForm struct {
	coef  map[*Term]uint64
	atoms []*Term
	c     uint64
	nodes int
}

func (lf *linForm) add(t *Term, k uint64) {
	lf.nodes++
	if lf.nodes > 400 {
		return
	}
	switch t.Op {
	case "const":
		lf.c += k * t.Val
		return
	case "bvadd":
		lf.add(t.Args[0], k)
		lf.add(t.Args[1], k)
		return
	case "bvsub":
		lf.add(t.Args[0], k)
		lf.add(t.Args[1], -k)
		return
	case "bvneg":
		lf.add(t.Args[0], -k)
		return
	case "bvmul":
		if t.Args[1].IsConst() {
			lf.add(t.Args[0], k*t.Args[1].Val)
			return
		}
		if t.Args[0].IsConst() {
			lf.add(t.Args[1], k*t.Args[0].Val)
			return
		}
	}
	if _, ok := lf.coef[t]; !ok {
		lf.atoms = append(lf.atoms, t)
	}
	lf.coef[t] += k
}

// linNormal rebuilds a op b as (p1 + p2 + ... - n1 - n2 ...) + c with the atoms ordered by term id, coefficients
// other than +-1 as multiplications by a constant; nil when the sum is too large to be worth it.
func linNormal(op string, a, b *Term) *Term {
	w := a.S.W
	lf := &linForm{coef: map[*Term]uint64{}}
	lf.add(a, 1)
	if op == "bvadd" {
		lf.add(b, 1)
	} else {
		lf.add(b, ^uint64(0))
	}
	if lf.nodes > 400 || len(lf.atoms) > 16 {
		return nil
	}
	m := mask(w)
	sort.Slice(lf.atoms, func(i, j int) bool { return lf.atoms[i].id < lf.atoms[j].id })
	var pos, neg []*Term
	for _, t := range lf.atoms {
		k := lf.coef[t] & m
		if k == 0 {
			continue
		}
		if k == 1 {
			pos = append(pos, t)
		} else if k == m {
			neg = append(neg, t)
		} else if k > m/2 {
			neg = append(neg, rawBin("bvmul", t, Const(w, -k)))
		} else {
			pos = append(pos, rawBin("bvmul", t, Const(w, k)))
		}
	}
	var acc *Term
	for _, t := range pos {
		if acc == nil {
			acc = t
		} else {
			acc = rawBin("bvadd", acc, t)
		}
	}
	for _, t := range neg {
		if acc == nil {
			acc = mk(&Term{Op: "bvneg", Args: []*Term{t}, S: t.S})
		} else {
			acc = rawBin("bvsub", acc, t)
		}
	}
	c := lf.c & m
	if acc == nil {
		return Const(w, c)
	}
	if c != 0 {
		acc = rawBin("bvadd", acc, Const(w, c))
	}
	return acc
}

func rawBin(op string, a, b *Term) *Term { return mk(&Term{Op: op, Args: []*Term{a, b}, S: a.S}) }

func Add(a, b *Term) *Term  { return bin("bvadd", a, b) }
func Sub(a, b *Term) *Term  { return bin("bvsub", a, b) }
func Mul(a, b *Term) *Term  { return bin("bvmul", a, b) }
func BAnd(a, b *Term) *Term { return bin("bvand", a, b) }
func BOr(a, b *Term) *Term  { return bin("bvor", a, b) }
func BXor(a, b *Term) *Term { return bin("bvxor", a, b) }
func Shl(a, b *Term) *Term  { return bin("bvshl", a, b) }
func LShr(a, b *Term) *Term { return bin("bvlshr", a, b) }
func AShr(a, b *Term) *Term { return bin("bvashr", a, b) }
func UDiv(a, b *Term) *Term { return bin("bvudiv", a, b) }
func URem(a, b *Term) *Term { return bin("bvurem", a, b) }
func SDiv(a, b *Term) *Term { return bin("bvsdiv", a, b) }
func SRem(a, b *Term) *Term { return bin("bvsrem", a, b) }

func BNot(a *Term) *Term {
	if a.IsConst() {
		return Const(a.S.W, ^a.Val)
	}
	if a.Op == "bvnot" {
		return a.Args[0]
	}
	return mk(&Term{Op: "bvnot", Args: []*Term{a}, S: a.S})
}

func Neg(a *Term) *Term {
	if a.IsConst() {
		return Const(a.S.W, -a.Val)
	}
	return mk(&Term{Op: "bvneg", Args: []*Term{a}, S: a.S})
}

func cmp(op string, a, b *Term) *Term {
	if a.S != b.S || a.S.K != SBV {
		panic(fmt.Sprintf("%s sort mismatch %v %v (%s ; %s)", op, a.S, b.S, a, b))
	}
	if a.IsConst() && b.IsConst() {
		switch op {
		case "bvult":
			return BoolC(a.Val < b.Val)
		case "bvule":
			return BoolC(a.Val <= b.Val)
		case "bvslt":
			return BoolC(a.SVal() < b.SVal())
		case "bvsle":
			return BoolC(a.SVal() <= b.SVal())
		}
	}
	if a == b {
		return BoolC(op == "bvule" || op == "bvsle")
	}
	w := a.S.W
	switch op {
	case "bvult":
		if b.IsConst() && b.Val == 0 {
			return False
		}
		if a.IsConst() && a.Val == mask(w) {
			return False
		}
	case "bvule":
		if a.IsConst() && a.Val == 0 {
			return True
		}
		if b.IsConst() && b.Val == mask(w) {
			return True
		}
	}
	// comparisons of zero-extensions against constants / each other
	if a.Op == "zext" && b.Op == "zext" && a.Args[0].S == b.Args[0].S {
		uop := op
		if op == "bvslt" {
			uop = "bvult"
		}
		if op == "bvsle" {
			uop = "bvule"
		}
		return cmp(uop, a.Args[0], b.Args[0])
	}
	if a.Op == "zext" && b.IsConst() {
		iw := a.Args[0].S.W
		bv := b.Val
		neg := (op == "bvslt" || op == "bvsle") && b.SVal() < 0
		if neg {
			return False
		}
		if bv > mask(iw) {
			return True
		}
		if op == "bvult" || op == "bvslt" {
			return cmp("bvult", a.Args[0], Const(iw, bv))
		}
		return cmp("bvule", a.Args[0], Const(iw, bv))
	}
	if b.Op == "zext" && a.IsConst() {
		iw := b.Args[0].S.W
		av := a.Val
		neg := (op == "bvslt" || op == "bvsle") && a.SVal() < 0
		if neg {
			return True
		}
		if av > mask(iw) {
			return False
		}
		if op == "bvult" || op == "bvslt" {
			return cmp("bvult", Const(iw, av), b.Args[0])
		}
		return cmp("bvule", Const(iw, av), b.Args[0])
	}
	return mk(&Term{Op: op, Args: []*Term{a, b}, S: BoolSort})
}

func ULt(a, b *Term) *Term { return cmp("bvult", a, b) }
func ULe(a, b *Term) *Term { return cmp("bvule", a, b) }
func SLt(a, b *Term) *Term { return cmp("bvslt", a, b) }
func SLe(a, b *Term) *Term { return cmp("bvsle", a, b) }

func Extract(hi, lo int, a *Term) *Term {
	w := hi - lo + 1
	if lo == 0 && w == a.S.W {
		return a
	}
	if a.IsConst() {
		return Const(w, a.Val>>uint(lo))
	}
	switch a.Op {
	case "zext":
		iw := a.Args[0].S.W
		if hi < iw {
			return Extract(hi, lo, a.Args[0])
		}
		if lo >= iw {
			return Const(w, 0)
		}
		if lo == 0 {
			return ZExt(Extract(iw-1, 0, a.Args[0]), w)
		}
	case "sext":
		iw := a.Args[0].S.W
		if hi < iw {
			return Extract(hi, lo, a.Args[0])
		}
	case "extract":
		return Extract(hi+a.B, lo+a.B, a.Args[0])
	case "concat":
		lw := a.Args[1].S.W
		if hi < lw {
			return Extract(hi, lo, a.Args[1])
		}
		if lo >= lw {
			return Extract(hi-lw, lo-lw, a.Args[0])
		}
	case "bvand", "bvor", "bvxor":
		if lo == 0 || a.Args[1].IsConst() {
			return bin(a.Op, Extract(hi, lo, a.Args[0]), Extract(hi, lo, a.Args[1]))
		}
	case "bvadd", "bvsub", "bvmul":
		if lo == 0 {
			return bin(a.Op, Extract(hi, 0, a.Args[0]), Extract(hi, 0, a.Args[1]))
		}
	case "bvlshr":
		// extract of (x >> c) == extract shifted, when in range
		if a.Args[1].IsConst() {
			c := int(a.Args[1].Val)
			if hi+c < a.S.W {
				return Extract(hi+c, lo+c, a.Args[0])
			}
		}
	case "bvshl":
		if a.Args[1].IsConst() {
			c := int(a.Args[1].Val)
			if lo >= c && c < a.S.W {
				return Extract(hi-c, lo-c, a.Args[0])
			}
			if hi < c {
				return Const(w, 0)
			}
		}
	case "ite":
		if a.Args[1].IsConst() || a.Args[2].IsConst() {
			return Ite(a.Args[0], Extract(hi, lo, a.Args[1]), Extract(hi, lo, a.Args[2]))
		}
	}
	return mk(&Term{Op: "extract", Args: []*Term{a}, S: BV(w), A: hi, B: lo})
}

// ZExt extends a to total width w.
func ZExt(a *Term, w int) *Term {
	if a.S.W == w {
		return a
	}
	if a.S.W > w {
		return Extract(w-1, 0, a)
	}
	if a.IsConst() {
		return Const(w, a.Val)
	}
	if a.Op == "zext" {
		return ZExt(a.Args[0], w)
	}
	return mk(&Term{Op: "zext", Args: []*Term{a}, S: BV(w), A: w - a.S.W})
}

func SExt(a *Term, w int) *Term {
	if a.S.W == w {
		return a
	}
	if a.S.W > w {
		return Extract(w-1, 0, a)
	}
	if a.IsConst() {
		return Const(w, uint64(a.SVal()))
	}
	if a.Op == "zext" {
		return ZExt(a.Args[0], w)
	}
	return mk(&Term{Op: "sext", Args: []*Term{a}, S: BV(w), A: w - a.S.W})
}

func Concat(a, b *Term) *Term {
	w := a.S.W + b.S.W
	if a.IsConst() && b.IsConst() && w <= 64 {
		return Const(w, a.Val<<uint(b.S.W)|b.Val)
	}
	if a.IsConst() && a.Val == 0 {
		return ZExt(b, w)
	}
	// concat(extract(h,m+1,x), extract(m,l,x)) = extract(h,l,x)
	if a.Op == "extract" && b.Op == "extract" && a.Args[0] == b.Args[0] && a.B == b.A+1 {
		return Extract(a.A, b.B, a.Args[0])
	}
	return mk(&Term{Op: "concat", Args: []*Term{a, b}, S: BV(w)})
}

func Select(arr, idx *Term) *Term {
	for arr.Op == "store" {
		si := arr.Args[1]
		if si == idx {
			return arr.Args[2]
		}
		if si.IsConst() && idx.IsConst() {
			arr = arr.Args[0]
			continue
		}
		break
	}
	return mk(&Term{Op: "select", Args: []*Term{arr, idx}, S: BV(8)})
}

func Store(arr, idx, v *Term) *Term {
	return mk(&Term{Op: "store", Args: []*Term{arr, idx, v}, S: ArrSort})
}

var ufSigs = map[string][]Sort{} // name -> arg sorts..., result sort last

// App applies an uninterpreted function.
func App(name string, res Sort, args ...*Term) *Term {
	sig := make([]Sort, 0, len(args)+1)
	for _, a := range args {
		sig = append(sig, a.S)
	}
	sig = append(sig, res)
	if old, ok := ufSigs[name]; ok {
		if len(old) != len(sig) {
			panic("uf arity clash " + name)
		}
		for i := range old {
			if old[i] != sig[i] {
				panic("uf sort clash " + name)
			}
		}
	} else {
		ufSigs[name] = sig
	}
	return mk(&Term{Op: "app", Name: name, Args: args, S: res})
}

// ---------- printing ----------

func (t *Term) String() string {
	var sb strings.Builder
	t.write(&sb, nil, 0)
	return sb.String()
}

func smtName(n string) string { return "|" + n + "|" }

func (t *Term) write(sb *strings.Builder, shared map[int]string, depth int) {
	if shared != nil {
		if n, ok := shared[t.id]; ok {
			sb.WriteString(n)
			return
		}
	}
	if depth > 200 && shared == nil {
		sb.WriteString("...")
		return
	}
	switch t.Op {
	case "const":
		if t.S.K == SBool {
			if t.Val == 1 {
				sb.WriteString("true")
			} else {
				sb.WriteString("false")
			}
			return
		}
		if t.S.W%4 == 0 {
			fmt.Fprintf(sb, "#x%0*x", t.S.W/4, t.Val)
		} else {
			fmt.Fprintf(sb, "#b%0*b", t.S.W, t.Val)
		}
	case "var":
		sb.WriteString(smtName(t.Name))
	case "extract":
		fmt.Fprintf(sb, "((_ extract %d %d) ", t.A, t.B)
		t.Args[0].write(sb, shared, depth+1)
		sb.WriteByte(')')
	case "zext":
		fmt.Fprintf(sb, "((_ zero_extend %d) ", t.A)
		t.Args[0].write(sb, shared, depth+1)
		sb.WriteByte(')')
	case "sext":
		fmt.Fprintf(sb, "((_ sign_extend %d) ", t.A)
		t.Args[0].write(sb, shared, depth+1)
		sb.WriteByte(')')
	case "app":
		if len(t.Args) == 0 {
			sb.WriteString(smtName(t.Name))
			return
		}
		sb.WriteByte('(')
		sb.WriteString(smtName(t.Name))
		for _, a := range t.Args {
			sb.WriteByte(' ')
			a.write(sb, shared, depth+1)
		}
		sb.WriteByte(')')
	default:
		sb.WriteByte('(')
		sb.WriteString(t.Op)
		for _, a := range t.Args {
			sb.WriteByte(' ')
			a.write(sb, shared, depth+1)
		}
		sb.WriteByte(')')
	}
}

// Script builds an SMT-LIB2 script asserting all of hyps and the negation of goal
// (goal may be nil: pure satisfiability of hyps).  Shared sub-terms are let-bound via define-fun.
// getVals are terms whose values are requested after check-sat.
func Script(hyps []*Term, goal *Term, getVals []*Term) string {
	roots := append([]*Term{}, hyps...)
	if goal != nil {
		roots = append(roots, goal)
	}
	roots = append(roots, getVals...)
	// count references
	refs := map[int]int{}
	var order []*Term
	var visit func(t *Term)
	visit = func(t *Term) {
		refs[t.id]++
		if refs[t.id] > 1 {
			return
		}
		for _, a := range t.Args {
			visit(a)
		}
		order = append(order, t) // post-order
	}
	for _, r := range roots {
		visit(r)
	}
	var sb strings.Builder
	sb.WriteString("(set-option :produce-models true)\n(set-logic QF_AUFBV)\n")
	// declarations
	vars := map[string]Sort{}
	ufs := map[string]bool{}
	for _, t := range order {
		if t.Op == "var" {
			vars[t.Name] = t.S
		}
		if t.Op == "app" {
			ufs[t.Name] = true
		}
	}
	vn := make([]string, 0, len(vars))
	for n := range vars {
		vn = append(vn, n)
	}
	sort.Strings(vn)
	for _, n := range vn {
		fmt.Fprintf(&sb, "(declare-fun %s () %s)\n", smtName(n), vars[n])
	}
	un := make([]string, 0, len(ufs))
	for n := range ufs {
		un = append(un, n)
	}
	sort.Strings(un)
	for _, n := range un {
		sig := ufSigs[n]
		sb.WriteString("(declare-fun " + smtName(n) + " (")
		for i := 0; i < len(sig)-1; i++ {
			if i > 0 {
				sb.WriteByte(' ')
			}
			sb.WriteString(sig[i].String())
		}
		sb.WriteString(") " + sig[len(sig)-1].String() + ")\n")
	}
	shared := map[int]string{}
	for _, t := range order {
		if refs[t.id] > 1 && len(t.Args) > 0 {
			name := fmt.Sprintf("$s%d", t.id)
			sb.WriteString("(define-fun " + name + " () " + t.S.String() + " ")
			t.write(&sb, shared, 0)
			sb.WriteString(")\n")
			shared[t.id] = name
		}
	}
	for _, h := range hyps {
		sb.WriteString("(assert ")
		h.write(&sb, shared, 0)
		sb.WriteString(")\n")
	}
	if goal != nil {
		sb.WriteString("(assert (not ")
		goal.write(&sb, shared, 0)
		sb.WriteString("))\n")
	}
	sb.WriteString("(check-sat)\n")
	if len(getVals) > 0 {
		// one get-value per term so a failure on one does not lose the rest
		for _, g := range getVals {
			sb.WriteString("(get-value (")
			g.write(&sb, shared, 0)
			sb.WriteString("))\n")
		}
	}
	return sb.String()
}

// Vars collects the free variables of the given terms.
func Vars(ts ...*Term) []*Term {
	seen := map[int]bool{}
	var out []*Term
	var visit func(t *Term)
	visit = func(t *Term) {
		if seen[t.id] {
			return
		}
		seen[t.id] = true
		if t.Op == "var" {
			out = append(out, t)
		}
		for _, a := range t.Args {
			visit(a)
		}
	}
	for _, t := range ts {
		visit(t)
	}
	sort.Slice(out, func(i, j int) bool { return out[i].Name < out[j].Name })
	return out
}
