package main

// Assumed contracts (models) of external functions. Every model used in a run is listed
// in the evidence under assumed_contracts.

import (
	"go/types"
	"strings"

	"golang.org/x/tools/go/ssa"
)

type extModel func(ex *Exec, st *State, fr *Frame, c ssa.Instruction, fn *ssa.Function, args []Value) []Outcome

var extModels map[string]extModel

func nonNilErr() Value { return VIface{Dyn: opaqueErrType, Val: VStruct{}} }

func init() {
	noop := func(ex *Exec, st *State, fr *Frame, c ssa.Instruction, fn *ssa.Function, args []Value) []Outcome {
		var rets []Value
		res := fn.Signature.Results()
		for i := 0; i < res.Len(); i++ {
			rets = append(rets, st.symValue(res.At(i).Type(), freshName(fn.Name()+".ret"), 1, false))
		}
		return []Outcome{{st, rets}}
	}
	errNew := func(ex *Exec, st *State, fr *Frame, c ssa.Instruction, fn *ssa.Function, args []Value) []Outcome {
		return []Outcome{{st, []Value{nonNilErr()}}}
	}
	panics := func(ex *Exec, st *State, fr *Frame, c ssa.Instruction, fn *ssa.Function, args []Value) []Outcome {
		ex.emit(st, fr, "safety/panic", ex.L.instrDetail(c), "call to "+fn.String()+" (panics/exits) is unreachable", False, nil, c.Pos())
		return nil
	}
	extModels = map[string]extModel{
		"errors.New":  errNew,
		"fmt.Errorf":  errNew,
		"fmt.Sprintf": sprintfModel,
		"fmt.Sprint":  noop,
		"fmt.Println": noop,
		"fmt.Printf":  noop,
		"log.Printf":  noop,
		"log.Println": noop,
		"log.Panicf":  panics,
		"log.Fatalf":  panics,
		"log.Panic":   panics,
		"log.Fatal":   panics,

		"(*bytes.Buffer).Write":     bufWrite,
		"(*bytes.Buffer).WriteByte": bufWriteByte,
		"bytes.Repeat":              bytesRepeat,
		"strings.ToUpper":           toUpper,
		"sync/atomic.AddUint32":     atomicAdd32,
		"sync/atomic.LoadUint32":    atomicLoad32,
		"sync/atomic.StoreUint32":   atomicStore32,
		"net.IPv4":                  netIPv4,
		"(net.IP).To4":              ipTo4,
		"(net.IP).To16":             ipTo16,
		"(net.IP).String":           noop,
		"(net.HardwareAddr).String": noop,
		"(net.IP).Equal":            noop,
		"math/rand.Uint32":          noop,
		"math/rand.Int31":           noop,
		"time.Now":                  noop,
	}
	for _, lvl := range []string{"Debugf", "Infof", "Warnf", "Errorf", "Debugln", "Infoln", "Warnln", "Errorln", "Debug", "Info", "Warn", "Error", "Printf", "Println", "Tracef"} {
		extModels["github.com/sirupsen/logrus."+lvl] = noop
		extModels["(*github.com/sirupsen/logrus.Logger)."+lvl] = noop
		extModels["(*github.com/sirupsen/logrus.Entry)."+lvl] = noop
	}
	for _, lvl := range []string{"Fatalf", "Fatal", "Fatalln", "Panicf", "Panic", "Panicln"} {
		extModels["github.com/sirupsen/logrus."+lvl] = panics
		extModels["(*github.com/sirupsen/logrus.Logger)."+lvl] = panics
	}
}

// fmt.Sprintf: concrete when the format is a literal with only %d verbs and all arguments are constants.
func sprintfModel(ex *Exec, st *State, fr *Frame, c0 ssa.Instruction, fn *ssa.Function, args []Value) []Outcome {
	sym := []Outcome{{st, []Value{VStr{ID: Fresh("sprintf", BV(64))}}}}
	f, ok := args[0].(VStr)
	if !ok || f.Lit == nil {
		return sym
	}
	va, ok := args[1].(VSlice)
	if !ok {
		return sym
	}
	if va.Obj == 0 {
		if !strings.Contains(*f.Lit, "%") {
			return []Outcome{{st, []Value{f}}}
		}
		return sym
	}
	if !va.Len.IsConst() {
		return sym
	}
	out := ""
	ai := uint64(0)
	s := *f.Lit
	for i := 0; i < len(s); i++ {
		if s[i] != '%' {
			out += string(s[i])
			continue
		}
		if i+1 >= len(s) || s[i+1] != 'd' || ai >= va.Len.Val {
			return sym
		}
		v := st.loadPtr(VPtr{Obj: va.Obj, Path: []PathEl{{Index: Add(va.Off, Const(64, ai)), Field: -1}}})
		iv, ok := v.(VIface)
		if !ok || iv.Dyn == nil {
			return sym
		}
		n, ok := iv.Val.(VInt)
		if !ok {
			return sym
		}
		if !n.T.IsConst() {
			// small-range case split: a symbolic integer that the path condition confines to 0..31 is enumerated
			w := n.T.S.W
			out := append(st.pc.list(), Not(ULt(n.T, Const(w, 32))))
			if r := Solve(Script(out, nil, nil), 3, 0, "first"); r.Status != "unsat" {
				return sym
			}
			var outs []Outcome
			for v := uint64(0); v < 32; v++ {
				c := Eq(n.T, Const(w, v))
				if !ex.feasible(st, c) {
					continue
				}
				s2 := st.clone()
				s2.assume(c)
				// re-run the model with the argument fixed
				cell := VPtr{Obj: va.Obj, Path: []PathEl{{Index: Add(va.Off, Const(64, ai)), Field: -1}}}
				s2.storePtr(cell, VIface{Dyn: iv.Dyn, Val: VInt{Const(w, v)}})
				outs = append(outs, sprintfModel(ex, s2, fr, c0, fn, args)...)
			}
			return outs
		}
		_, signed, _ := intInfo(iv.Dyn)
		if signed {
			out += itoa64(n.T.SVal())
		} else {
			out += utoa64(n.T.Val)
		}
		ai++
		i++
	}
	return []Outcome{{st, []Value{VStr{Lit: &out}}}}
}

func itoa64(v int64) string {
	if v < 0 {
		return "-" + utoa64(uint64(-v))
	}
	return utoa64(uint64(v))
}

func utoa64(v uint64) string {
	if v == 0 {
		return "0"
	}
	var b []byte
	for v > 0 {
		b = append([]byte{byte('0' + v%10)}, b...)
		v /= 10
	}
	return string(b)
}

// (*bytes.Buffer).Write(p): contents' = contents ++ p (p copied), n = len(p), err = nil.
// Modelled on the real fields: buf' = fresh(buf[off:len] ++ p), off' = 0.
func bufAppend(ex *Exec, st *State, recv VPtr, src Value, bt types.Type) *Term {
	bv := st.loadPtr(recv).(VStruct)
	bi, oi := bufferFieldIdx(bt, "buf"), bufferFieldIdx(bt, "off")
	buf := bv.F[bi].(VSlice)
	off := bv.F[oi].(VInt).T
	smem, soff, slen, _ := ex.bytesOf(st, src)
	var dmem *ByteMem = bmZeros
	if buf.Obj != 0 {
		dmem = st.heap[buf.Obj].Mem
	}
	curLen := Sub(buf.Len, off)
	nm := bmZeros.Copy(Const(64, 0), dmem, Add(buf.Off, off), curLen).Copy(curLen, smem, soff, slen)
	nl := Add(curLen, slen)
	st.assume(ULe(nl, Const(64, 1<<(maxLenBits+1))))
	ncap := Fresh("bufcap", BV(64))
	st.assume(ULe(nl, ncap))
	st.assume(ULe(ncap, Const(64, 1<<(maxLenBits+2))))
	id := st.allocBytes(nm, ncap, true, "bytes.Buffer")
	f := append([]Value{}, bv.F...)
	f[bi] = VSlice{Obj: id, Off: Const(64, 0), Len: nl, Cap: ncap, Nil: False}
	f[oi] = VInt{Const(64, 0)}
	ex.noteWrite(st, nil, recv, bt)
	st.storePtr(recv, VStruct{f})
	return slen
}

func bufType(fn *ssa.Function) types.Type {
	return fn.Signature.Recv().Type().Underlying().(*types.Pointer).Elem()
}

func bufWrite(ex *Exec, st *State, fr *Frame, c ssa.Instruction, fn *ssa.Function, args []Value) []Outcome {
	recv := ex.checkNonNil(st, fr, args[0].(VPtr), c)
	if st.dead {
		return nil
	}
	n := bufAppend(ex, st, recv, args[1], bufType(fn))
	return []Outcome{{st, []Value{VInt{n}, nilIface}}}
}

func bufWriteByte(ex *Exec, st *State, fr *Frame, c ssa.Instruction, fn *ssa.Function, args []Value) []Outcome {
	recv := ex.checkNonNil(st, fr, args[0].(VPtr), c)
	if st.dead {
		return nil
	}
	mem := bmZeros.Store(Const(64, 0), args[1].(VInt).T)
	id := st.allocBytes(mem, Const(64, 1), true, "byte")
	bufAppend(ex, st, recv, VSlice{Obj: id, Off: Const(64, 0), Len: Const(64, 1), Cap: Const(64, 1), Nil: False}, bufType(fn))
	return []Outcome{{st, []Value{nilIface}}}
}

// bytes.Repeat(b, count): panics if count < 0; fresh slice of len(b)*count; content modelled only for
// single-byte b (every byte equals b[0]).
func bytesRepeat(ex *Exec, st *State, fr *Frame, c ssa.Instruction, fn *ssa.Function, args []Value) []Outcome {
	smem, soff, slen, _ := ex.bytesOf(st, args[0])
	cnt := args[1].(VInt).T
	ex.safety(st, fr, "repeat", c, SLe(Const(64, 0), cnt))
	n := Mul(slen, cnt)
	st.assume(ULe(n, Const(64, 1<<maxLenBits)))
	var mem *ByteMem
	if slen.IsConst() && slen.Val == 1 {
		b0 := smem.Read(soff)
		if b0.IsConst() && b0.Val == 0 {
			mem = bmZeros
		} else {
			arr := Fresh("repeat", ArrSort)
			mem = bmBaseOf(arr)
		}
	} else {
		mem = bmBaseOf(Fresh("repeat", ArrSort))
	}
	id := st.allocBytes(mem, n, true, "bytes.Repeat")
	return []Outcome{{st, []Value{VSlice{Obj: id, Off: Const(64, 0), Len: n, Cap: n, Nil: False}}}}
}

func toUpper(ex *Exec, st *State, fr *Frame, c ssa.Instruction, fn *ssa.Function, args []Value) []Outcome {
	s := args[0].(VStr)
	if s.Lit != nil {
		u := strings.ToUpper(*s.Lit)
		return []Outcome{{st, []Value{VStr{Lit: &u}}}}
	}
	return []Outcome{{st, []Value{VStr{ID: App("strings.ToUpper", BV(64), s.ID)}}}}
}

// atomic.AddUint32(p, d): *p += d; returns the new value (linearizable fetch-and-add, assumed).
func atomicAdd32(ex *Exec, st *State, fr *Frame, c ssa.Instruction, fn *ssa.Function, args []Value) []Outcome {
	p := ex.checkNonNil(st, fr, args[0].(VPtr), c)
	if st.dead {
		return nil
	}
	old := st.loadPtr(p).(VInt).T
	nv := Add(old, args[1].(VInt).T)
	ex.noteWrite(st, fr, p, types.Typ[types.Uint32])
	st.storePtr(p, VInt{nv})
	return []Outcome{{st, []Value{VInt{nv}}}}
}

func atomicLoad32(ex *Exec, st *State, fr *Frame, c ssa.Instruction, fn *ssa.Function, args []Value) []Outcome {
	p := ex.checkNonNil(st, fr, args[0].(VPtr), c)
	if st.dead {
		return nil
	}
	// interference: between two atomic operations of this goroutine any other goroutine may have changed the
	// shared word, so a load observes an arbitrary value (only the value RETURNED by an atomic add is linked to it)
	_ = st.loadPtr(p)
	return []Outcome{{st, []Value{VInt{Fresh("atomic.load", BV(32))}}}}
}

func atomicStore32(ex *Exec, st *State, fr *Frame, c ssa.Instruction, fn *ssa.Function, args []Value) []Outcome {
	p := ex.checkNonNil(st, fr, args[0].(VPtr), c)
	if st.dead {
		return nil
	}
	ex.noteWrite(st, fr, p, types.Typ[types.Uint32])
	st.storePtr(p, args[1])
	return []Outcome{{st, nil}}
}

func mkBytes(st *State, vals []*Term, tag string) VSlice {
	mem := bmZeros
	for i, v := range vals {
		mem = mem.Store(Const(64, uint64(i)), v)
	}
	n := Const(64, uint64(len(vals)))
	id := st.allocBytes(mem, n, true, tag)
	return VSlice{Obj: id, Off: Const(64, 0), Len: n, Cap: n, Nil: False}
}

var v4prefix = []uint64{0, 0, 0, 0, 0, 0, 0, 0, 0, 0, 0xff, 0xff}

func netIPv4(ex *Exec, st *State, fr *Frame, c ssa.Instruction, fn *ssa.Function, args []Value) []Outcome {
	var vals []*Term
	for _, b := range v4prefix {
		vals = append(vals, Const(8, b))
	}
	for i := 0; i < 4; i++ {
		vals = append(vals, args[i].(VInt).T)
	}
	return []Outcome{{st, []Value{mkBytes(st, vals, "net.IPv4")}}}
}

// ip.To4(): len 4 -> ip; len 16 with the v4-in-v6 prefix -> ip[12:16]; otherwise nil. Single outcome: the
// result aliases ip's backing object in both non-nil cases (offset/length are ite terms).
func ipTo4(ex *Exec, st *State, fr *Frame, c ssa.Instruction, fn *ssa.Function, args []Value) []Outcome {
	ip := args[0].(VSlice)
	mem, off, ln, _ := ex.bytesOf(st, ip)
	is4 := Eq(ln, Const(64, 4))
	is16 := Eq(ln, Const(64, 16))
	pre := True
	for i, b := range v4prefix {
		pre = And(pre, Eq(mem.Read(Add(off, Const(64, uint64(i)))), Const(8, b)))
	}
	m16 := And(is16, pre)
	ok := Or(is4, m16)
	if ip.Obj == 0 {
		return []Outcome{{st, []Value{zeroValue(fn.Signature.Results().At(0).Type())}}}
	}
	r := VSlice{Obj: ip.Obj, Off: Add(ip.Off, Ite(m16, Const(64, 12), Const(64, 0))), Len: Ite(ok, Const(64, 4), Const(64, 0)),
		Cap: Ite(ok, Sub(ip.Cap, Ite(m16, Const(64, 12), Const(64, 0))), Const(64, 0)), Nil: Not(ok)}
	return []Outcome{{st, []Value{r}}}
}

// ip.To16(): len 4 -> fresh v4-mapped 16 bytes; len 16 -> ip; otherwise nil. Single outcome on a new object
// holding the right contents (aliasing with ip in the 16-byte case is kept only as the ownership flag).
func ipTo16(ex *Exec, st *State, fr *Frame, c ssa.Instruction, fn *ssa.Function, args []Value) []Outcome {
	ip := args[0].(VSlice)
	mem, off, ln, _ := ex.bytesOf(st, ip)
	is4 := Eq(ln, Const(64, 4))
	is16 := Eq(ln, Const(64, 16))
	ok := Or(is4, is16)
	nm := bmZeros
	for i := 0; i < 16; i++ {
		var v4 *Term
		if i < 12 {
			v4 = Const(8, v4prefix[i])
		} else {
			v4 = mem.Read(Add(off, Const(64, uint64(i-12))))
		}
		nm = nm.Store(Const(64, uint64(i)), Ite(is4, v4, mem.Read(Add(off, Const(64, uint64(i))))))
	}
	id := st.allocBytes(nm, Const(64, 16), true, "To16")
	if ip.Obj != 0 {
		if o := st.heap[ip.Obj]; o != nil && (o.Input || !o.Fresh) {
			c2 := *st.heap[id]
			c2.Input = o.Input
			c2.Fresh = o.Fresh
			st.heap[id] = &c2
		}
	}
	r := VSlice{Obj: id, Off: Const(64, 0), Len: Ite(ok, Const(64, 16), Const(64, 0)), Cap: Ite(ok, Const(64, 16), Const(64, 0)), Nil: Not(ok)}
	return []Outcome{{st, []Value{r}}}
}

// ---------- encoding/binary.Read / Write on *bytes.Buffer (assumed contracts keyed by static type) ----------

func init() {
	extModels["encoding/binary.Read"] = binaryRead
	extModels["encoding/binary.Write"] = binaryWrite
	extModels["(*bytes.Buffer).Read"] = bufRead
}

func bufArg(ex *Exec, st *State, v Value) (VPtr, types.Type) {
	iv, ok := v.(VIface)
	if !ok || iv.Dyn == nil {
		oos("binary.Read/Write on a reader/writer of unknown dynamic type")
	}
	pt, ok := iv.Dyn.Underlying().(*types.Pointer)
	if !ok || !isBytesBuffer(pt.Elem()) {
		oos("binary.Read/Write on %s (only *bytes.Buffer is modelled)", typeStr(iv.Dyn))
	}
	p, ok := iv.Val.(VPtr)
	if !ok || p.Obj <= 0 {
		oos("binary.Read/Write on nil buffer")
	}
	return p, pt.Elem()
}

func checkBigEndian(v Value) {
	iv, ok := v.(VIface)
	if !ok || iv.Dyn == nil || !strings.Contains(typeStr(iv.Dyn), "bigEndian") {
		oos("binary.Read/Write with a byte order other than BigEndian")
	}
}

// flatSize: encoded size in bytes of a fixed-size type (ints, arrays of them); ok=false otherwise.
func flatSize(t types.Type) (int, bool) {
	if w, _, ok := intInfo(t); ok {
		return w / 8, true
	}
	if a, ok := t.Underlying().(*types.Array); ok {
		es, ok2 := flatSize(a.Elem())
		return es * int(a.Len()), ok2
	}
	return 0, false
}

// decodeFlat builds a value of type t from bytes read at off.
func decodeFlat(mem *ByteMem, off *Term, t types.Type) Value {
	if w, _, ok := intInfo(t); ok {
		var r *Term
		for k := 0; k < w/8; k++ {
			b := mem.Read(Add(off, Const(64, uint64(k))))
			if r == nil {
				r = b
			} else {
				r = Concat(r, b)
			}
		}
		return VInt{r}
	}
	a := t.Underlying().(*types.Array)
	es, _ := flatSize(a.Elem())
	e := make([]Value, a.Len())
	for i := range e {
		e[i] = decodeFlat(mem, Add(off, Const(64, uint64(i*es))), a.Elem())
	}
	return VArray{e}
}

func encodeFlat(v Value, t types.Type, out *[]*Term) {
	if w, _, ok := intInfo(t); ok {
		x := v.(VInt).T
		for k := w/8 - 1; k >= 0; k-- {
			*out = append(*out, Extract(k*8+7, k*8, x))
		}
		return
	}
	a := t.Underlying().(*types.Array)
	for _, e := range v.(VArray).E {
		encodeFlat(e, a.Elem(), out)
	}
}

// binary.Read(buf, BigEndian, p): needs sizeof(*p) bytes (len(*p) for a byte slice). If the buffer holds
// that many: decodes big-endian into *p (slices are filled in place), consumes them, err == nil.
// Otherwise err != nil, *p unchanged, the buffer's remaining bytes are consumed. Never panics for non-nil p.
func binaryRead(ex *Exec, st *State, fr *Frame, c ssa.Instruction, fn *ssa.Function, args []Value) []Outcome {
	bp, bt := bufArg(ex, st, args[0])
	checkBigEndian(args[1])
	dv, ok := args[2].(VIface)
	if !ok || dv.Dyn == nil {
		oos("binary.Read into a value of unknown dynamic type")
	}
	pt, ok := dv.Dyn.Underlying().(*types.Pointer)
	if !ok {
		oos("binary.Read into non-pointer %s", typeStr(dv.Dyn))
	}
	target := ex.checkNonNil(st, fr, dv.Val.(VPtr), c)
	if st.dead {
		return nil
	}
	bv := st.loadPtr(bp).(VStruct)
	bi, oi := bufferFieldIdx(bt, "buf"), bufferFieldIdx(bt, "off")
	buf := bv.F[bi].(VSlice)
	off := bv.F[oi].(VInt).T
	avail := Sub(buf.Len, off)
	var mem *ByteMem = bmZeros
	if buf.Obj != 0 {
		mem = st.heap[buf.Obj].Mem
	}
	var size *Term
	et := pt.Elem()
	var dst VSlice
	isSlice := false
	if fs, ok := flatSize(et); ok {
		size = Const(64, uint64(fs))
	} else if isByteSlice(et) {
		dst = st.loadPtr(target).(VSlice)
		size = dst.Len
		isSlice = true
	} else {
		oos("binary.Read into %s is not modelled", typeStr(et))
	}
	setOff := func(s *State, no *Term) {
		cur := s.loadPtr(bp).(VStruct)
		f := append([]Value{}, cur.F...)
		f[oi] = VInt{no}
		ex.noteWrite(s, nil, bp, bt)
		s.storePtr(bp, VStruct{f})
	}
	var outs []Outcome
	okc := ULe(size, avail)
	if !okc.IsFalse() {
		s := st.clone()
		s.assume(okc)
		if isSlice {
			if dst.Obj != 0 {
				o := *s.heap[dst.Obj]
				o.Mem = o.Mem.Copy(dst.Off, mem, Add(buf.Off, off), size)
				s.heap[dst.Obj] = &o
				ex.noteObjWrite(s, dst.Obj)
			}
		} else {
			ex.noteWrite(s, nil, target, et)
			s.storePtr(target, decodeFlat(mem, Add(buf.Off, off), et))
		}
		setOff(s, Add(off, size))
		outs = append(outs, Outcome{s, []Value{nilIface}})
	}
	if !okc.IsTrue() {
		s := st.clone()
		s.assume(Not(okc))
		setOff(s, buf.Len)
		outs = append(outs, Outcome{s, []Value{nonNilErr()}})
	}
	return outs
}

// binary.Write(buf, BigEndian, v): appends the big-endian bytes of v (fixed-size value or byte slice); err == nil.
func binaryWrite(ex *Exec, st *State, fr *Frame, c ssa.Instruction, fn *ssa.Function, args []Value) []Outcome {
	bp, bt := bufArg(ex, st, args[0])
	checkBigEndian(args[1])
	dv, ok := args[2].(VIface)
	if !ok || dv.Dyn == nil {
		oos("binary.Write of a value of unknown dynamic type")
	}
	t := dv.Dyn
	v := dv.Val
	if pt, ok := t.Underlying().(*types.Pointer); ok {
		p := ex.checkNonNil(st, fr, v.(VPtr), c)
		if st.dead {
			return nil
		}
		v = ex.unref(st, st.loadPtr(p), pt.Elem())
		t = pt.Elem()
	}
	if _, ok := flatSize(t); ok {
		var bs []*Term
		encodeFlat(v, t, &bs)
		bufAppend(ex, st, bp, mkBytes(st, bs, "binary.Write"), bt)
		return []Outcome{{st, []Value{nilIface}}}
	}
	if isByteSlice(t) {
		bufAppend(ex, st, bp, v, bt)
		return []Outcome{{st, []Value{nilIface}}}
	}
	oos("binary.Write of %s is not modelled", typeStr(t))
	return nil
}

// (*bytes.Buffer).Read(p): copies min(len(p), Len()) bytes, consumes them; io.EOF only when the buffer is empty and len(p) > 0.
func bufRead(ex *Exec, st *State, fr *Frame, c ssa.Instruction, fn *ssa.Function, args []Value) []Outcome {
	bp := ex.checkNonNil(st, fr, args[0].(VPtr), c)
	if st.dead {
		return nil
	}
	bt := bufType(fn)
	bv := st.loadPtr(bp).(VStruct)
	bi, oi := bufferFieldIdx(bt, "buf"), bufferFieldIdx(bt, "off")
	buf := bv.F[bi].(VSlice)
	off := bv.F[oi].(VInt).T
	avail := Sub(buf.Len, off)
	dst := args[1].(VSlice)
	n := Ite(ULt(dst.Len, avail), dst.Len, avail)
	var mem *ByteMem = bmZeros
	if buf.Obj != 0 {
		mem = st.heap[buf.Obj].Mem
	}
	if dst.Obj != 0 {
		o := *st.heap[dst.Obj]
		o.Mem = o.Mem.Copy(dst.Off, mem, Add(buf.Off, off), n)
		st.heap[dst.Obj] = &o
		ex.noteObjWrite(st, dst.Obj)
	}
	f := append([]Value{}, bv.F...)
	f[oi] = VInt{Add(off, n)}
	ex.noteWrite(st, nil, bp, bt)
	st.storePtr(bp, VStruct{f})
	eof := And(Eq(avail, Const(64, 0)), Ne(dst.Len, Const(64, 0)))
	var outs []Outcome
	if !eof.IsTrue() {
		s := st.clone()
		s.assume(Not(eof))
		outs = append(outs, Outcome{s, []Value{VInt{n}, nilIface}})
	}
	if !eof.IsFalse() {
		s := st.clone()
		s.assume(eof)
		outs = append(outs, Outcome{s, []Value{VInt{n}, nonNilErr()}})
	}
	return outs
}
