package main

// Verification of one function against its contract: entry state, postconditions,
// frame and ownership obligations.

import (
	"fmt"
	"go/types"
	"sort"
	"strings"
	"sync"

	"golang.org/x/tools/go/ssa"
)

type FuncResult struct {
	Fn       *ssa.Function
	Key      string
	FC       *FuncContract
	Obligs   []*Oblig
	Errs     []string
	Inlined  []string
	Assumed  []string
	UsedCtr  []string
	Paths    int
	Returns  int
	ExecSecs float64
}

var initOnce sync.Once
var initSt *State
var initErr string
var mutableGlobals map[*ssa.Global]string

// globalsState evaluates the repo packages' init functions once (concretely) and returns the heap of globals.
func globalsState(L *Loaded) *State {
	initOnce.Do(func() {
		mutableGlobals = scanGlobalWrites(L)
		st := newState()
		var names []string
		for n := range L.SSAPkgs {
			names = append(names, n)
		}
		sort.Strings(names)
		for _, n := range names {
			sp := L.SSAPkgs[n]
			for _, m := range sp.Members {
				if g, ok := m.(*ssa.Global); ok {
					et := g.Type().Underlying().(*types.Pointer).Elem()
					p := st.allocCell(zeroValue(et), false, "global:"+n+"."+g.Name())
					st.globals[g] = p.Obj
				}
			}
		}
		ex := &Exec{L: L, maxPaths: 100000, maxInline: 50, inlined: map[string]bool{}, assumed: map[string]bool{}, usedCtr: map[string]bool{}, noSafety: true}
		ex.lenient = true
		for _, n := range names {
			sp := L.SSAPkgs[n]
			initFn := sp.Func("init")
			if initFn == nil {
				continue
			}
			func() {
				defer func() {
					if r := recover(); r != nil {
						if ee, ok := r.(*execError); ok {
							initErr += fmt.Sprintf("init of %s: %s; ", n, ee.Error())
							return
						}
						panic(r)
					}
				}()
				ex.top = initFn
				savedDB := L.Contracts
				L.Contracts = nil // inits are executed, not abstracted
				defer func() { L.Contracts = savedDB }()
				fr := ex.newFrame(initFn, nil, nil, nil)
				outs := ex.runBody(st, fr)
				if len(outs) != 1 {
					initErr += fmt.Sprintf("init of %s: %d outcomes; ", n, len(outs))
					return
				}
				st = outs[0].st
			}()
		}
		// objects created by init are not fresh for later functions
		for id, o := range st.heap {
			if o.Fresh {
				c := *o
				c.Fresh = false
				st.heap[id] = &c
			}
		}
		// globals written outside init (or whose address escapes to calls) become symbolic
		for g, why := range mutableGlobals {
			if id, ok := st.globals[g]; ok {
				et := g.Type().Underlying().(*types.Pointer).Elem()
				o := *st.heap[id]
				o.Val = st.symValue(et, "global."+g.Name(), 1, false)
				o.Tag += " (mutable: " + why + ")"
				st.heap[id] = &o
			}
		}
		initSt = st
	})
	return initSt
}

// scanGlobalWrites finds package-level variables of the repo that are stored to, or whose address is
// passed to a call, outside package initialisation.
func scanGlobalWrites(L *Loaded) map[*ssa.Global]string {
	res := map[*ssa.Global]string{}
	for fn := range L.AllFuncs {
		if !L.isRepoFunc(fn) || fn.Name() == "init" || strings.HasPrefix(fn.Name(), "init#") {
			continue
		}
		for _, b := range fn.Blocks {
			for _, in := range b.Instrs {
				var derived func(v ssa.Value) *ssa.Global
				derived = func(v ssa.Value) *ssa.Global {
					switch x := v.(type) {
					case *ssa.Global:
						if x.Pkg != nil && strings.HasPrefix(x.Pkg.Pkg.Path(), repoModule) {
							return x
						}
					case *ssa.FieldAddr:
						return derived(x.X)
					case *ssa.IndexAddr:
						return derived(x.X)
					}
					return nil
				}
				switch x := in.(type) {
				case *ssa.Store:
					if g := derived(x.Addr); g != nil {
						res[g] = "stored to in " + funcKey(fn)
					}
					if g := derived(x.Val); g != nil {
						res[g] = "address stored in " + funcKey(fn)
					}
				case *ssa.MapUpdate:
					if u, ok := x.Map.(*ssa.UnOp); ok {
						if g := derived(u.X); g != nil {
							res[g] = "map updated in " + funcKey(fn)
						}
					}
				case ssa.CallInstruction:
					for _, a := range x.Common().Args {
						if g := derived(a); g != nil {
							res[g] = "address passed to " + x.Common().Value.Name() + " in " + funcKey(fn)
						}
					}
				case *ssa.Return:
					for _, r := range x.Results {
						if g := derived(r); g != nil {
							res[g] = "address returned by " + funcKey(fn)
						}
					}
				case *ssa.MakeInterface:
					if g := derived(x.X); g != nil {
						res[g] = "address boxed in " + funcKey(fn)
					}
				}
			}
		}
	}
	return res
}

func verifyFunc(L *Loaded, fn *ssa.Function, fc *FuncContract) (res *FuncResult) {
	res = &FuncResult{Fn: fn, Key: funcKey(fn), FC: fc}
	curPC = nil
	pcBounds = map[*PC]*boundsTab{}
	ex := &Exec{L: L, top: fn, topFC: fc, maxPaths: 4000, maxInline: 6, inlined: map[string]bool{}, assumed: map[string]bool{}, usedCtr: map[string]bool{}, renamed: map[string]bool{}}
	if fc != nil && fc.NoSafety {
		ex.noSafety = true
	}
	if fc != nil && fc.InlineCalls {
		ex.maxInline = 14
	}
	if fc != nil && fc.InlineCalls {
		ex.maxInline = 14
	}
	defer func() {
		res.Obligs = ex.obligs
		res.Paths = ex.paths
		for k := range ex.inlined {
			res.Inlined = append(res.Inlined, k)
		}
		for k := range ex.assumed {
			res.Assumed = append(res.Assumed, k)
		}
		for k := range ex.usedCtr {
			res.UsedCtr = append(res.UsedCtr, k)
		}
		sort.Strings(res.Inlined)
		sort.Strings(res.Assumed)
		sort.Strings(res.UsedCtr)
		if r := recover(); r != nil {
			if ee, ok := r.(*execError); ok {
				res.Errs = append(res.Errs, ee.Error())
				return
			}
			panic(r)
		}
	}()
	gs := globalsState(L)
	if initErr != "" {
		res.Errs = append(res.Errs, "package init not evaluated: "+initErr)
	}
	st := gs.clone()
	fr := &Frame{fn: fn, regs: map[ssa.Value]Value{}, cuts: map[*ssa.BasicBlock]*cutInfo{}, fc: fc}
	var params []Value
	for i, p := range fn.Params {
		name := p.Name()
		if fc != nil && i < len(fc.Params) {
			name = fc.Params[i]
		}
		nonNil := fn.Signature.Recv() != nil && i == 0
		v := st.symValue(p.Type(), name, 3, nonNil)
		if sl, ok := v.(VSlice); ok && isByteSlice(p.Type()) {
			o := *st.heap[sl.Obj]
			o.Input = true
			st.heap[sl.Obj] = &o
		}
		fr.regs[p] = v
		params = append(params, v)
	}
	if len(fn.FreeVars) > 0 {
		for _, fv := range fn.FreeVars {
			et := fv.Type()
			fr.bind = append(fr.bind, st.symValue(et, "free."+fv.Name(), 2, true))
		}
	}
	ex.entry = &EntryInfo{Fn: fn, Params: params, FC: fc}
	sumSeqs = map[int]*Term{}
	seqReadHook = func(s *State, o *Object, idx *Term, v Value) {
		defer func() {
			if r := recover(); r != nil {
				if _, ok := r.(*execError); ok {
					return
				}
				panic(r)
			}
		}()
		if o == nil || o.Seq == nil {
			return
		}
		e := &Env{ex: ex, st: s, vars: map[string]tv{}, in: "element read"}
		var preds []string
		for pn := range o.Seq.allWF {
			preds = append(preds, pn)
		}
		sort.Strings(preds)
		for _, pn := range preds {
			// assumed (not proved): nested universal facts of the element (all<pred> of its own lists) are recorded too
			g := ULt(idx, o.Seq.allWF[pn])
			e.assuming, e.guard = true, g
			s.assume(Implies(g, e.predOf(pn, v, o.Seq.elemT)))
		}
		if ln, ok := sumSeqs[o.Seq.id]; ok {
			e.sumTerm(VSlice{Obj: o.ID, Off: Const(64, 0), Len: ln, Cap: ln}, o.Seq.elemT, Add(idx, Const(64, 1)))
		}
	}
	env := ex.frameEnv(st, fr)
	if fc != nil && len(fc.RefinePre) > 0 {
		// behavioural subtyping: the interface's preconditions must imply this implementer's own
		rs := st.clone()
		for _, r := range fc.RefinePre {
			ex.assumeClause(rs, env, r)
		}
		for i, r := range fc.Requires {
			g := ex.evalBoolClause(rs, env, r)
			ex.emit(rs, fr, "refine/pre", fmt.Sprint(i+1), "interface preconditions imply requires "+r.Text, g, r.Props, fn.Pos())
		}
	}
	if fc != nil {
		for _, r := range fc.Requires {
			ex.assumeClause(st, env, r)
		}
	}
	// snapshot
	snap := st.clone()
	ex.entry.Heap = snap.heap
	ex.entry.Globals = snap.globals
	// vacuity guard: requires satisfiable
	ex.obligs = append(ex.obligs, &Oblig{Name: res.Key + "/cover/requires", Class: "cover", Func: res.Key, Clause: "preconditions are satisfiable", Hyps: st.pc.list(), Cover: true, st: snap, entry: ex.entry})
	if hasRecover(fn) {
		ex.recoverMode = true
		ex.topFrame = fr
	}
	outs := ex.runBody(st, fr)
	outs = append(outs, ex.panicOuts...)
	res.Returns = len(outs)
	for _, o := range outs {
		f := fr
		if pf := ex.retFrames[o.st]; pf != nil {
			f = pf
		}
		ex.atReturn(o.st, f, fc, o.rets)
	}
	if len(outs) == 0 && len(ex.obligs) <= 1 {
		res.Errs = append(res.Errs, "no path reaches a return")
	}
	return res
}

func (ex *Exec) atReturn(st *State, fr *Frame, fc *FuncContract, rets []Value) {
	if st.dead {
		return
	}
	fn := fr.fn
	env := ex.frameEnv(st, fr)
	if fc != nil {
		res := fn.Signature.Results()
		for i := 0; i < res.Len() && i < len(fc.Results); i++ {
			env.bind(fc.Results[i], rets[i], res.At(i).Type())
		}
		if res.Len() == 1 {
			env.bind("result", rets[0], res.At(0).Type())
		}
		for i, en := range fc.Ensures {
			g := ex.evalBoolClause(st, env, en)
			lab := fmt.Sprint(i + 1)
			if en.Label != "" {
				lab = en.Label
			}
			ex.emit(st, fr, "post", lab, "ensures "+en.Text, g, en.Props, fn.Pos())
		}
	}
	if fc != nil {
		for i, ap := range fc.Appends {
			ex.appendsCheck(st, fr, env, ap, i+1)
		}
	}
	ex.frameCheck(st, fr, fc, env)
	if fc != nil && len(fc.Own) > 0 {
		ex.ownCheck(st, fr, rets, "")
	}
}

// appendsCheck: the buffer's old contents are a prefix of the new contents and exactly n bytes were added.
func (ex *Exec) appendsCheck(st *State, fr *Frame, env *Env, ap *AppendClause, k int) {
	oldSt := &State{heap: ex.entry.Heap, globals: ex.entry.Globals}
	oenv := env.withState(oldSt)
	oenv.in = ap.Buf.Text
	omem, ooff, olen := oenv.bufView(oenv.eval(ap.Buf.Expr))
	nenv := env.withState(st)
	nenv.in = ap.Buf.Text
	// the buffer is located through the *entry* state (the pointer itself must not be re-targeted)
	loc, bt := oenv.bufPtr(oenv.eval(ap.Buf.Expr))
	nmem, noff, nlen := nenv.bufView(tv{loc, types.NewPointer(bt)})
	n := ex.evalIntClause(oldSt, oenv, ap.N)
	ex.emit(st, fr, "frame/appends", fmt.Sprintf("%d/len", k), "appends "+ap.Buf.Text+", "+ap.N.Text+": length grows by exactly n", Eq(nlen, Add(olen, n)), nil, fr.fn.Pos())
	i := Fresh("appends_i", BV(64))
	g := Implies(ULt(i, olen), Eq(nmem.Read(Add(noff, i)), omem.Read(Add(ooff, i))))
	ex.emit(st, fr, "frame/appends", fmt.Sprintf("%d/prefix", k), "appends "+ap.Buf.Text+": old contents are preserved as a prefix", g, nil, fr.fn.Pos())
}

// ---------- frame ----------

type diff struct {
	where string
	goal  *Term // nil: structural change (cannot be equal)
	obj   int
	path  []PathEl
}

func (ex *Exec) frameCheck(st *State, fr *Frame, fc *FuncContract, env *Env) {
	entry := ex.entry.Heap
	// locations the contract allows to change
	type allowed struct {
		obj  int
		path string
	}
	var allow []allowed
	if fc != nil {
		oenv := env.withState(&State{heap: entry, globals: ex.entry.Globals})
		for _, m := range fc.Modifies {
			oenv.in = m.Text
			loc, _ := oenv.evalLoc(m.Expr)
			if loc.Global != nil {
				allow = append(allow, allowed{ex.entry.Globals[loc.Global], pathKey(loc.Path)})
			} else if loc.Obj > 0 {
				allow = append(allow, allowed{loc.Obj, pathKey(loc.Path)})
			}
		}
	}
	if fc != nil {
		oldSt := &State{heap: entry, globals: ex.entry.Globals}
		oenv := env.withState(oldSt)
		for _, ap := range fc.Appends {
			oenv.in = ap.Buf.Text
			loc, _ := oenv.bufPtr(oenv.eval(ap.Buf.Expr))
			allow = append(allow, allowed{loc.Obj, pathKey(loc.Path)})
		}
	}
	reach := map[int]bool{}
	if fc != nil && fc.ModReach && len(ex.entry.Params) > 0 {
		collectObjs(&State{heap: entry, globals: ex.entry.Globals}, ex.entry.Params[0], reach, 8)
		// a pointer parameter designates its own cell too
		if p, ok := ex.entry.Params[0].(VPtr); ok && p.Obj > 0 {
			reach[p.Obj] = true
		}
	}
	ids := make([]int, 0, len(entry))
	for id := range entry {
		if reach[id] {
			continue
		}
		ids = append(ids, id)
	}
	sort.Ints(ids)
	for _, id := range ids {
		old := entry[id]
		cur := st.heap[id]
		if cur == old || cur == nil {
			continue
		}
		if fc != nil && fc.AllowGlobals && strings.HasPrefix(old.Tag, "global:") {
			continue
		}
		var diffs []diff
		switch old.Kind {
		case okCell:
			diffValues(old.Val, cur.Val, nil, &diffs)
		case okBytes:
			if old.Mem != cur.Mem {
				i := Fresh("frame_i", BV(64))
				diffs = append(diffs, diff{where: "[*]", goal: Implies(ULt(i, old.Len), Eq(old.Mem.Read(i), cur.Mem.Read(i)))})
			}
		case okSeq:
			if len(old.Seq.entries) != len(cur.Seq.entries) || old.Seq.id != cur.Seq.id {
				diffs = append(diffs, diff{where: "[*]", goal: nil})
			}
		}
		for _, d := range diffs {
			pk := pathKey(d.path)
			ok := false
			for _, a := range allow {
				if a.obj == id && strings.HasPrefix(pk, a.path) {
					ok = true
				}
			}
			if ok {
				continue
			}
			g := d.goal
			if g == nil {
				g = False
			}
			tag := old.Tag
			ex.emit(st, fr, "frame", fmt.Sprintf("%s%s%s", tag, ex.pathText(old, d.path), d.where), "location not listed in modifies keeps its value", g, nil, fr.fn.Pos())
		}
	}
}

func (ex *Exec) pathText(o *Object, p []PathEl) string {
	var sb strings.Builder
	t := o.T
	for _, e := range p {
		if e.Index != nil {
			fmt.Fprintf(&sb, "[%s]", idxName(e.Index))
			if t != nil {
				switch u := t.Underlying().(type) {
				case *types.Array:
					t = u.Elem()
				case *types.Slice:
					t = u.Elem()
				default:
					t = nil
				}
			}
		} else {
			if st, ok := underStruct(t); ok && e.Field < st.NumFields() {
				fmt.Fprintf(&sb, ".%s", st.Field(e.Field).Name())
				t = st.Field(e.Field).Type()
			} else {
				fmt.Fprintf(&sb, ".%d", e.Field)
				t = nil
			}
		}
	}
	return sb.String()
}

func underStruct(t types.Type) (*types.Struct, bool) {
	if t == nil {
		return nil, false
	}
	st, ok := t.Underlying().(*types.Struct)
	return st, ok
}

func diffValues(a, b Value, path []PathEl, out *[]diff) {
	switch x := a.(type) {
	case VInt:
		y, ok := b.(VInt)
		if !ok {
			*out = append(*out, diff{path: path})
			return
		}
		if x.T != y.T {
			*out = append(*out, diff{path: path, goal: Eq(x.T, y.T)})
		}
	case VBool:
		y, ok := b.(VBool)
		if !ok {
			*out = append(*out, diff{path: path})
			return
		}
		if x.T != y.T {
			*out = append(*out, diff{path: path, goal: Eq(x.T, y.T)})
		}
	case VStruct:
		y, ok := b.(VStruct)
		if !ok || len(x.F) != len(y.F) {
			*out = append(*out, diff{path: path})
			return
		}
		for i := range x.F {
			diffValues(x.F[i], y.F[i], append(append([]PathEl{}, path...), PathEl{Field: i}), out)
		}
	case VArray:
		y, ok := b.(VArray)
		if !ok || len(x.E) != len(y.E) {
			if _, isRef := b.(VArrayRef); isRef {
				return // storage moved for slicing; contents checked via the bytes object
			}
			*out = append(*out, diff{path: path})
			return
		}
		for i := range x.E {
			diffValues(x.E[i], y.E[i], append(append([]PathEl{}, path...), PathEl{Index: Const(64, uint64(i)), Field: -1}), out)
		}
	case VSlice:
		y, ok := b.(VSlice)
		if !ok {
			*out = append(*out, diff{path: path})
			return
		}
		if x.Obj != y.Obj {
			*out = append(*out, diff{path: path})
			return
		}
		g := And(Eq(x.Off, y.Off), Eq(x.Len, y.Len), Eq(x.Cap, y.Cap))
		if !g.IsTrue() {
			*out = append(*out, diff{path: path, goal: g})
		}
	case VPtr:
		y, ok := b.(VPtr)
		if !ok || x.Obj != y.Obj || x.Global != y.Global || pathKey(x.Path) != pathKey(y.Path) {
			*out = append(*out, diff{path: path})
		}
	case VIface:
		y, ok := b.(VIface)
		if !ok {
			*out = append(*out, diff{path: path})
			return
		}
		if x.Dyn != nil || y.Dyn != nil {
			if x.Dyn == nil || y.Dyn == nil || !types.Identical(x.Dyn, y.Dyn) {
				*out = append(*out, diff{path: path})
				return
			}
			diffValues(x.Val, y.Val, path, out)
			return
		}
		if x.ID != y.ID {
			*out = append(*out, diff{path: path})
		}
	default:
		if describe(a) != describe(b) {
			*out = append(*out, diff{path: path})
		}
	}
}

// ---------- ownership ----------

func (ex *Exec) ownCheck(st *State, fr *Frame, rets []Value, suffix string) {
	// roots: every parameter that is not a byte slice, plus results
	inputs := map[int]bool{}
	for id, o := range st.heap {
		if o.Input {
			inputs[id] = true
		}
	}
	var bad []string
	seen := map[int]bool{}
	var walk func(v Value, where string)
	walkObj := func(id int, where string) {
		if id <= 0 || seen[id] {
			return
		}
		seen[id] = true
		o := st.heap[id]
		if o == nil {
			return
		}
		switch o.Kind {
		case okCell:
			walk(o.Val, where)
		case okSeq:
			for _, e := range o.Seq.entries {
				walk(e.val, where+"[]")
			}
			for _, e := range o.Seq.memo {
				walk(e.val, where+"[]")
			}
		}
	}
	walk = func(v Value, where string) {
		switch x := v.(type) {
		case VSlice:
			if x.Obj > 0 && inputs[x.Obj] {
				bad = append(bad, where)
				return
			}
			walkObj(x.Obj, where)
		case VPtr:
			walkObj(x.Obj, where)
		case VIface:
			if x.Dyn != nil {
				walk(x.Val, where)
			}
		case VStruct:
			for i, f := range x.F {
				walk(f, fmt.Sprintf("%s.%d", where, i))
			}
		case VArray:
			for _, f := range x.E {
				walk(f, where)
			}
		case VArrayRef:
			if inputs[x.Obj] {
				bad = append(bad, where)
			}
		}
	}
	for i, p := range fr.fn.Params {
		if isByteSlice(p.Type()) {
			continue
		}
		walk(ex.entry.Params[i], p.Name())
	}
	for i, r := range rets {
		walk(r, fmt.Sprintf("result%d", i))
	}
	if len(bad) == 0 {
		ex.emit(st, fr, "own/noalias"+suffix, "", "result shares no memory with the input buffer", True, []string{"C12"}, fr.fn.Pos())
	} else {
		sort.Strings(bad)
		ex.emit(st, fr, "own/noalias"+suffix, "", "result shares no memory with the input buffer (aliased at "+strings.Join(bad, ", ")+")", False, []string{"C12"}, fr.fn.Pos())
	}
}
