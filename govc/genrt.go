package main

// genrt: mechanically generates round-trip lemma functions (C05 C09) for every leaf kind: a type with its own
// MarshalBinary and UnmarshalBinary whose fields are integers, booleans, byte slices/arrays (and embedded headers
// made of those). The lemma encodes a symbolic well-formed value, appends arbitrary trailing bytes, decodes into
// a fresh value, re-encodes, and its contract demands equal observable fields and identical bytes. The lemmas are
// verified by executing the real encoder and decoder symbolically (flag inlinecalls), not through size contracts.

import (
	"fmt"
	"go/types"
	"os"
	"path/filepath"
	"sort"
	"strings"

	"golang.org/x/tools/go/ssa"
)

type rtField struct {
	path string     // selector path from the value, e.g. "Port" or "NXActionHeader.Subtype"
	t    types.Type // field type
}

func hasLoop(L *Loaded, fn *ssa.Function) bool { return len(L.loops(fn)) > 0 }

func ownMethod(L *Loaded, pt types.Type, pkg *types.Package, name string) *ssa.Function {
	sel := L.Prog.MethodSets.MethodSet(pt).Lookup(pkg, name)
	if sel == nil {
		return nil
	}
	fn := L.Prog.MethodValue(sel)
	if fn == nil || fn.Synthetic != "" || fn.Blocks == nil {
		return nil
	}
	return fn
}

// leafFields flattens the comparable fields of a struct; ok=false if the struct holds interfaces, non-byte slices,
// maps or other structures the generic lemma does not handle.
func leafFields(t types.Type, prefix string, depth int, out *[]rtField) bool {
	st, ok := t.Underlying().(*types.Struct)
	if !ok || depth > 3 {
		return false
	}
	for i := 0; i < st.NumFields(); i++ {
		f := st.Field(i)
		name := prefix + f.Name()
		ft := f.Type()
		switch u := ft.Underlying().(type) {
		case *types.Basic:
			if _, _, isInt := intInfo(u); isInt || isBool(u) {
				*out = append(*out, rtField{name, ft})
				continue
			}
			return false
		case *types.Slice:
			if isByte(u.Elem()) {
				*out = append(*out, rtField{name, ft})
				continue
			}
			return false
		case *types.Array:
			if isByte(u.Elem()) {
				*out = append(*out, rtField{name, ft})
				continue
			}
			return false
		case *types.Struct:
			if isBytesBuffer(ft) {
				*out = append(*out, rtField{name, ft})
				continue
			}
			if !leafFields(ft, name+".", depth+1, out) {
				return false
			}
		case *types.Pointer:
			if _, isS := u.Elem().Underlying().(*types.Struct); isS && f.Embedded() {
				if !leafFields(u.Elem(), name+".", depth+1, out) {
					return false
				}
				continue
			}
			return false
		default:
			return false
		}
	}
	return true
}

var ip4Kinds = map[string]bool{"Ipv4SrcField": true, "Ipv4DstField": true, "ArpXPaField": true, "TunnelIpv4SrcField": true, "TunnelIpv4DstField": true}

// kinds whose last field takes all remaining bytes: they are only ever the last element, so no trailing bytes
var restKinds = map[string]bool{"ICMP": true, "UDP": true, "TCP": true, "ErrorMsg": true, "VendorError": true, "Buffer": true}

// fields set by the dispatcher, not by the kind's own decoder
var rtSkipField = map[string]bool{"withCT": true}

// additional well-formedness the generic wf() leaves open
var rtExtraReq = map[string]string{
	"NXActionNote": "(10 + len(v.Note)) % 8 == 0",
	"ARP":          "v.ProtoLength == 4",
	"IGMPv1or2":    "len(v.GroupAddress) == 4",
}

// kinds whose decoder is never applied to a buffer with trailing bytes (callers pass exactly data[:4])
var rtExclude = map[string]bool{"InstrHeader": true, "ByteArrayField": true}

func cmdGenRT(args []string) int {
	L := load("/repo")
	type kind struct {
		pkg, name string
		fields    []rtField
	}
	var kinds []kind
	var pnames []string
	for n := range L.SSAPkgs {
		pnames = append(pnames, n)
	}
	sort.Strings(pnames)
	skip := map[string]string{}
	for _, pn := range pnames {
		sp := L.SSAPkgs[pn]
		scope := sp.Pkg.Scope()
		for _, tn := range scope.Names() {
			tobj, ok := scope.Lookup(tn).(*types.TypeName)
			if !ok || tobj.IsAlias() {
				continue
			}
			pt := types.NewPointer(tobj.Type())
			m := ownMethod(L, pt, sp.Pkg, "MarshalBinary")
			u := ownMethod(L, pt, sp.Pkg, "UnmarshalBinary")
			if m == nil || u == nil {
				continue
			}
			if len(L.Contracts.Specs["wf"]) == 0 {
				continue
			}
			hasWf := false
			for _, sf := range L.Contracts.Specs["wf"] {
				if types.Identical(sf.PTypes[0], pt) {
					hasWf = true
				}
			}
			if !hasWf {
				continue
			}
			if rtExclude[tn] {
				skip[pn+"."+tn] = "decoder takes an exact-size buffer"
				continue
			}
			if hasLoop(L, m) || hasLoop(L, u) {
				skip[pn+"."+tn] = "loops"
				continue
			}
			var fs []rtField
			if !leafFields(tobj.Type(), "", 0, &fs) {
				skip[pn+"."+tn] = "non-leaf fields"
				continue
			}
			kinds = append(kinds, kind{pn, tn, fs})
		}
	}
	byPkg := map[string][]kind{}
	for _, k := range kinds {
		byPkg[k.pkg] = append(byPkg[k.pkg], k)
	}
	for pn, ks := range byPkg {
		sp := L.SSAPkgs[pn]
		rel := strings.TrimPrefix(strings.TrimPrefix(sp.Pkg.Path(), repoModule), "/")
		var lem, con strings.Builder
		fmt.Fprintf(&lem, "//go:build verif\n\n// GENERATED by /verif/bin/govc genrt - do not edit. Round-trip lemma functions (C05 C09), one per leaf kind.\n\npackage %s\n\n", pn)
		fmt.Fprintf(&con, "//go:build verif\n\n// GENERATED by /verif/bin/govc genrt - do not edit. Contracts of the round-trip lemmas (C05 C09): decoding the encoding of\n// a well-formed value followed by arbitrary bytes succeeds, yields equal observable fields, and re-encodes to the same bytes.\n\npackage %s\n\n", pn)
		for _, k := range ks {
			fn := "lemmaRT" + k.name
			fmt.Fprintf(&lem, "func %s(v *%s, rest []byte) (d *%s, err error, b1, b2 []byte) {\n\tb1, _ = v.MarshalBinary()\n\tin := append(append([]byte{}, b1...), rest...)\n\td = new(%s)\n\terr = d.UnmarshalBinary(in)\n\tif err != nil {\n\t\treturn\n\t}\n\tb2, _ = d.MarshalBinary()\n\treturn\n}\n\n", fn, k.name, k.name, k.name)
			var eq []string
			var req []string
			for _, f := range k.fields {
				last := f.path
				if i := strings.LastIndex(last, "."); i >= 0 {
					last = last[i+1:]
				}
				if rtSkipField[last] {
					continue
				}
				if strings.HasPrefix(last, "pad") || last == "zero" || last == "zeros" || last == "reserved" {
					// padding: a well-formed value holds zeros there (constructors allocate zeroed buffers)
					switch u := f.t.Underlying().(type) {
					case *types.Slice:
						req = append(req, fmt.Sprintf("allzero(v.%s)", f.path))
					case *types.Array:
						for i := int64(0); i < u.Len(); i++ {
							req = append(req, fmt.Sprintf("v.%s[%d] == 0", f.path, i))
						}
					default:
						req = append(req, fmt.Sprintf("v.%s == 0", f.path))
					}
					continue
				}
				if ip4Kinds[k.name] {
					if _, isSl := f.t.Underlying().(*types.Slice); isSl {
						// IPv4 address fields: encoders take the 4-byte form, decoders produce the 16-byte v4-in-v6 form
						req = append(req, fmt.Sprintf("len(v.%s) == 4", f.path))
						eq = append(eq, fmt.Sprintf("len(d.%s) == 16 && bytes_eq(d.%s, 12, v.%s, 0, 4)", f.path, f.path, f.path))
						continue
					}
				}
				if isBytesBuffer(f.t) {
					// payload buffer: same number of content bytes (the contents are covered by the byte equality below)
					eq = append(eq, fmt.Sprintf("blen(d.%s) == blen(v.%s)", f.path, f.path))
					continue
				}
				switch u := f.t.Underlying().(type) {
				case *types.Slice:
					_ = u
					eq = append(eq, fmt.Sprintf("len(d.%s) == len(v.%s) && bytes_eq(d.%s, 0, v.%s, 0, len(v.%s))", f.path, f.path, f.path, f.path, f.path))
				case *types.Array:
					for i := int64(0); i < u.Len(); i++ {
						eq = append(eq, fmt.Sprintf("d.%s[%d] == v.%s[%d]", f.path, i, f.path, i))
					}
				default:
					eq = append(eq, fmt.Sprintf("d.%s == v.%s", f.path, f.path))
				}
			}
			fmt.Fprintf(&con, "//@ func %s(v, rest) (d, err, b1, b2) [C05%s]\n//@   inlinecalls\n//@   modreach\n//@   requires wf(v) && size(v) <= 65535 && len(rest) <= 65535\n", fn, map[bool]string{true: " C09", false: ""}[pn == "protocol"])
			if restKinds[k.name] {
				req = append(req, "len(rest) == 0")
			}
			if x := rtExtraReq[k.name]; x != "" {
				req = append(req, x)
			}
			for _, r := range req {
				fmt.Fprintf(&con, "//@   requires %s\n", r)
			}
			fmt.Fprintf(&con, "//@   ensures err == nil && d != nil\n")
			for _, e := range eq {
				fmt.Fprintf(&con, "//@   ensures err == nil ==> %s\n", e)
			}
			fmt.Fprintf(&con, "//@   ensures err == nil ==> len(b2) == len(b1) && bytes_eq(b2, 0, b1, 0, len(b1))\n\n")
		}
		os.WriteFile(filepath.Join(L.RepoDir, rel, "zz_lemmas_rt_verif.go"), []byte(lem.String()), 0o644)
		os.WriteFile(filepath.Join(L.RepoDir, rel, "zz_contracts_rt_verif.go"), []byte(con.String()), 0o644)
		fmt.Printf("%s: %d leaf kinds\n", pn, len(ks))
	}
	genDispatch(L)
	var sk []string
	for k, why := range skip {
		sk = append(sk, k+" ("+why+")")
	}
	sort.Strings(sk)
	fmt.Println("skipped:", strings.Join(sk, ", "))
	return 0
}

// ---------- dispatch lemmas: constructor -> encoder -> dispatcher/decoder -> encoder ----------

func implementsIface(L *Loaded, t types.Type, pkg, name string) bool {
	sp := L.SSAPkgs[pkg]
	if sp == nil {
		return false
	}
	o := sp.Pkg.Scope().Lookup(name)
	if o == nil {
		return false
	}
	it, ok := o.Type().Underlying().(*types.Interface)
	return ok && types.Implements(t, it)
}

func qualifier(pkg *types.Package) types.Qualifier {
	return func(p *types.Package) string {
		if p == pkg {
			return ""
		}
		return p.Name()
	}
}

// constructors whose arguments carry values of unknown dynamic type (the dispatcher cannot be executed on them)
var dispSkip = map[string]string{"NewActionSetField": "argument holds an abstract match field", "NewNXActionRegLoad2": "argument holds an abstract match field",
	"NewBundleAdd": "argument holds an abstract message", "NewNXActionLearn": "container (list loop cut by invariants without byte contents)", "NewNXActionConnTrack": "container", "NewInstrApplyActions": "container", "NewInstrWriteActions": "container", "NewTunMetadataField": "over the quick budget (name enumeration x field dispatch)", "NewFlowMod": "over the quick budget (covered for framing by C01, decoding by C07)", "NewTLVTableModMessage": "argument holds a symbolic-length list", "NewNxActionHeader": "base type, not an action of its own"}

// controller-originated messages that Parse dispatches
var dispMsgs = map[string]bool{"NewEchoRequest": true, "NewEchoReply": true, "NewFeaturesRequest": true, "NewConfigRequest": true, "NewSetConfig": true,
	"NewFlowMod": true, "NewNXTVendorHeader": true, "NewSetControllerID": true, "NewTLVTableRequest": true, "NewBundleControl": true}

// genDispatch writes zz_lemmas_disp_verif.go / zz_contracts_disp_verif.go for package openflow13.
func genDispatch(L *Loaded) {
	pn := "openflow13"
	sp := L.SSAPkgs[pn]
	q := qualifier(sp.Pkg)
	var lem, con strings.Builder
	imports := map[string]bool{}
	var names []string
	for n, m := range sp.Members {
		if fn, ok := m.(*ssa.Function); ok && strings.HasPrefix(n, "New") && fn.Blocks != nil && fn.TypeParams().Len() == 0 {
			names = append(names, n)
		}
	}
	sort.Strings(names)
	cnt := 0
	var body strings.Builder
	for _, n := range names {
		fn := sp.Members[n].(*ssa.Function)
		res := fn.Signature.Results()
		if res.Len() != 1 || fn.Signature.Variadic() {
			continue
		}
		pt, ok := res.At(0).Type().(*types.Pointer)
		if !ok {
			continue
		}
		nt, ok := pt.Elem().(*types.Named)
		if !ok {
			continue
		}
		tname := types.TypeString(nt, q)
		var mode string
		switch {
		case nt.Obj().Name() == "MatchField" && nt.Obj().Pkg() == sp.Pkg:
			mode = "field"
		case implementsIface(L, pt, "openflow13", "Action"):
			mode = "action"
		case implementsIface(L, pt, "openflow13", "Instruction"):
			mode = "instr"
		case implementsIface(L, pt, "util", "Message") && hasHeaderField(nt):
			mode = "msg"
		default:
			continue
		}
		fc := L.Contracts.lookup(fn)
		if fc == nil {
			continue
		}
		if dispSkip[n] != "" {
			continue
		}
		if mode == "msg" && !dispMsgs[n] {
			continue // switch-originated kinds have no complete constructor; kinds Parse does not dispatch (group-mod, packet-out, port-mod) are not "both encoded and decoded" through the entry point
		}
		// parameters
		var decl, call []string
		for _, p := range fn.Params {
			ts := types.TypeString(p.Type(), q)
			collectImports(p.Type(), sp.Pkg, imports)
			decl = append(decl, p.Name()+" "+ts)
			call = append(call, p.Name())
		}
		collectImports(nt, sp.Pkg, imports)
		lname := "lemmaDisp" + n
		var dtype, dec string
		switch mode {
		case "field":
			dtype = "*MatchField"
			dec = "\td = new(MatchField)\n\terr = d.UnmarshalBinary(in)\n"
		case "action":
			dtype = "Action"
			dec = "\td, err = DecodeAction(in)\n"
		case "instr":
			dtype = "Instruction"
			dec = "\td = DecodeInstr(in)\n\tif d == nil {\n\t\terr = errDispNil\n\t}\n"
		case "msg":
			dtype = "util.Message"
			imports["github.com/contiv/libOpenflow/util"] = true
			dec = "\td, err = Parse(in)\n\tif err == nil && d == nil {\n\t\terr = errDispNil\n\t}\n"
		}
		rest := "rest"
		inexpr := "append(append([]byte{}, b1...), rest...)"
		if mode == "msg" {
			inexpr = "b1"
		}
		fmt.Fprintf(&body, "func %s(%s) (v *%s, d %s, err error, b1, b2 []byte) {\n\tv = %s(%s)\n\tb1, _ = v.MarshalBinary()\n\tin := %s\n%s\tif err != nil {\n\t\treturn\n\t}\n\tb2, _ = d.MarshalBinary()\n\treturn\n}\n\n",
			lname, strings.Join(append(decl, rest+" []byte"), ", "), tname, dtype, n, strings.Join(call, ", "), inexpr, dec)
		// contract
		var binders []string
		binders = append(binders, call...)
		binders = append(binders, rest)
		fmt.Fprintf(&con, "//@ func %s(%s) (v, d, err, b1, b2) [C05]\n//@   inlinecalls\n//@   allowglobals\n//@   requires len(rest) <= 65535\n", lname, strings.Join(binders, ", "))
		for _, r := range fc.Requires {
			if r.Label == "" {
				fmt.Fprintf(&con, "//@   requires %s\n", r.Text)
			}
		}
		fmt.Fprintf(&con, "//@   ensures err == nil && d != nil\n")
		switch mode {
		case "field":
			fmt.Fprintf(&con, "//@   ensures err == nil ==> d.Class == v.Class && d.Field == v.Field && d.HasMask == v.HasMask && d.Length == v.Length && sametype(d.Value, v.Value) && (v.HasMask ==> sametype(d.Mask, v.Mask))\n")
		default:
			fmt.Fprintf(&con, "//@   ensures err == nil ==> typeis(d, *%s)\n", tname)
			var fs []rtField
			if leafFields(nt, "", 0, &fs) {
				for _, f := range fs {
					last := f.path
					if i := strings.LastIndex(last, "."); i >= 0 {
						last = last[i+1:]
					}
					if strings.HasPrefix(last, "pad") || last == "zero" || last == "zeros" || last == "reserved" || isBytesBuffer(f.t) || (last == "Note" && nt.Obj().Name() == "NXActionNote") {
						continue // (a note is zero-padded to the action's 8-byte alignment: the decoded note includes the padding)
					}
					switch u := f.t.Underlying().(type) {
					case *types.Slice:
						fmt.Fprintf(&con, "//@   ensures err == nil ==> len(d.(*%s).%s) == len(v.%s) && bytes_eq(d.(*%s).%s, 0, v.%s, 0, len(v.%s))\n", tname, f.path, f.path, tname, f.path, f.path, f.path)
					case *types.Array:
						_ = u
					default:
						fmt.Fprintf(&con, "//@   ensures err == nil ==> d.(*%s).%s == v.%s\n", tname, f.path, f.path)
					}
				}
			}
		}
		fmt.Fprintf(&con, "//@   ensures err == nil ==> len(b2) == len(b1) && bytes_eq(b2, 0, b1, 0, len(b1))\n\n")
		cnt++
	}
	fmt.Fprintf(&lem, "//go:build verif\n\n// GENERATED by /verif/bin/govc genrt - do not edit. Dispatch round-trip lemmas (C05): value from a constructor, encoded,\n// followed by arbitrary bytes, decoded through the library's dispatcher, re-encoded.\n\npackage %s\n\nimport (\n\t\"errors\"\n", pn)
	var ims []string
	for im := range imports {
		ims = append(ims, im)
	}
	sort.Strings(ims)
	for _, im := range ims {
		fmt.Fprintf(&lem, "\t%q\n", im)
	}
	fmt.Fprintf(&lem, ")\n\nvar errDispNil = errors.New(\"dispatcher returned nil\")\n\n%s", body.String())
	hdr := fmt.Sprintf("//go:build verif\n\n// GENERATED by /verif/bin/govc genrt - do not edit. Contracts of the dispatch round-trip lemmas (C05).\n\npackage %s\n\n", pn)
	rel := "openflow13"
	os.WriteFile(filepath.Join(L.RepoDir, rel, "zz_lemmas_disp_verif.go"), []byte(lem.String()), 0o644)
	os.WriteFile(filepath.Join(L.RepoDir, rel, "zz_contracts_disp_verif.go"), []byte(hdr+con.String()), 0o644)
	fmt.Printf("dispatch lemmas: %d\n", cnt)
}

func hasHeaderField(nt *types.Named) bool {
	st, ok := nt.Underlying().(*types.Struct)
	if !ok {
		return false
	}
	if nt.Obj().Name() == "Header" {
		return true
	}
	for i := 0; i < st.NumFields(); i++ {
		if st.Field(i).Name() == "Header" {
			return true
		}
	}
	return false
}

func collectImports(t types.Type, self *types.Package, out map[string]bool) {
	switch u := t.(type) {
	case *types.Named:
		if p := u.Obj().Pkg(); p != nil && p != self {
			out[p.Path()] = true
		}
	case *types.Pointer:
		collectImports(u.Elem(), self, out)
	case *types.Slice:
		collectImports(u.Elem(), self, out)
	case *types.Array:
		collectImports(u.Elem(), self, out)
	}
}
