package main

// Path state: heap, path condition, loads/stores through pointers and slices,
// materialisation of symbolic values by type.

import (
	"fmt"
	"go/types"

	"golang.org/x/tools/go/ssa"
)

type PC struct {
	t    *Term
	prev *PC
	n    int
}

func (p *PC) push(t *Term) *PC {
	if t.IsTrue() {
		return p
	}
	n := 1
	if p != nil {
		n = p.n + 1
	}
	return &PC{t, p, n}
}

func (p *PC) list() []*Term {
	var out []*Term
	for q := p; q != nil; q = q.prev {
		out = append(out, q.t)
	}
	// reverse
	for i, j := 0, len(out)-1; i < j; i, j = i+1, j-1 {
		out[i], out[j] = out[j], out[i]
	}
	return out
}

type State struct {
	heap    map[int]*Object
	pc      *PC
	globals map[*ssa.Global]int
	dead    bool // path condition known false
	// ghost event trace (stream checks): list of events appended by assumed contracts
	trace []string
	// assumed elemsat facts (statements about buffer snapshots), instantiated when another elemsat is proved
	elemFacts []elemFact
}

var objCtr int

func newState() *State {
	return &State{heap: map[int]*Object{}, globals: map[*ssa.Global]int{}}
}

func (s *State) clone() *State {
	h := make(map[int]*Object, len(s.heap))
	for k, v := range s.heap {
		h[k] = v
	}
	g := make(map[*ssa.Global]int, len(s.globals))
	for k, v := range s.globals {
		g[k] = v
	}
	return &State{heap: h, pc: s.pc, globals: g, dead: s.dead, trace: append([]string{}, s.trace...), elemFacts: s.elemFacts}
}

func (s *State) assume(t *Term) {
	if t.IsFalse() {
		s.dead = true
	}
	if t.Op == "and" {
		for _, a := range t.Args {
			s.assume(a)
		}
		return
	}
	s.pc = s.pc.push(t)
}

func (s *State) newObj(o *Object) int {
	objCtr++
	o.ID = objCtr
	s.heap[o.ID] = o
	return o.ID
}

func (s *State) allocCell(v Value, fresh bool, tag string) VPtr {
	id := s.newObj(&Object{Kind: okCell, Val: v, Fresh: fresh, Tag: tag})
	return VPtr{Obj: id}
}

func (s *State) allocBytes(mem *ByteMem, n *Term, fresh bool, tag string) int {
	return s.newObj(&Object{Kind: okBytes, Mem: mem, Len: n, Fresh: fresh, Tag: tag})
}

var seqCtr int

func (s *State) allocSeq(elemT types.Type, n *Term, zero bool, fresh bool, tag string) int {
	seqCtr++
	return s.newObj(&Object{Kind: okSeq, Seq: &SeqMem{id: seqCtr, elemT: elemT, zero: zero, name: tag}, ElemT: elemT, Len: n, Fresh: fresh, Tag: tag})
}

func (s *State) setObj(id int, o *Object) {
	c := *o
	c.ID = id
	s.heap[id] = &c
}

// ---------- execution errors ----------

type execError struct {
	kind string // "out-of-subset", "internal"
	msg  string
}

func (e *execError) Error() string { return e.kind + ": " + e.msg }

func oos(format string, a ...interface{}) {
	panic(&execError{"out-of-subset", fmt.Sprintf(format, a...)})
}

// ---------- value navigation ----------

func getPath(v Value, path []PathEl) Value {
	for _, p := range path {
		switch x := v.(type) {
		case VStruct:
			v = x.F[p.Field]
		case VArray:
			v = arrayRead(x, p.Index)
		default:
			oos("getPath through %T", v)
		}
	}
	return v
}

func setPath(v Value, path []PathEl, nv Value) Value {
	if len(path) == 0 {
		return nv
	}
	p := path[0]
	switch x := v.(type) {
	case VStruct:
		f := make([]Value, len(x.F))
		copy(f, x.F)
		f[p.Field] = setPath(x.F[p.Field], path[1:], nv)
		return VStruct{f}
	case VArray:
		e := make([]Value, len(x.E))
		copy(e, x.E)
		if p.Index.IsConst() {
			i := int(p.Index.Val)
			if i >= len(e) {
				oos("array store out of range (unchecked)")
			}
			e[i] = setPath(x.E[i], path[1:], nv)
			return VArray{e}
		}
		for i := range e {
			c := Eq(p.Index, Const(64, uint64(i)))
			e[i] = iteValue(c, setPath(x.E[i], path[1:], nv), x.E[i])
		}
		return VArray{e}
	}
	oos("setPath through %T", v)
	return nil
}

func arrayRead(a VArray, idx *Term) Value {
	if idx.IsConst() {
		if int(idx.Val) >= len(a.E) {
			oos("array index out of range (unchecked)")
		}
		return a.E[idx.Val]
	}
	if len(a.E) == 0 {
		oos("index into empty array")
	}
	r := a.E[len(a.E)-1]
	for i := len(a.E) - 2; i >= 0; i-- {
		r = iteValue(Eq(idx, Const(64, uint64(i))), a.E[i], r)
	}
	return r
}

// iteValue builds c ? a : b structurally.
func iteValue(c *Term, a, b Value) Value {
	if c.IsTrue() {
		return a
	}
	if c.IsFalse() {
		return b
	}
	switch x := a.(type) {
	case VInt:
		y := b.(VInt)
		return VInt{Ite(c, x.T, y.T)}
	case VBool:
		y := b.(VBool)
		return VBool{Ite(c, x.T, y.T)}
	case VStruct:
		y := b.(VStruct)
		f := make([]Value, len(x.F))
		for i := range f {
			f[i] = iteValue(c, x.F[i], y.F[i])
		}
		return VStruct{f}
	case VArray:
		y := b.(VArray)
		e := make([]Value, len(x.E))
		for i := range e {
			e[i] = iteValue(c, x.E[i], y.E[i])
		}
		return VArray{e}
	case VSlice:
		y := b.(VSlice)
		if x.Obj == y.Obj {
			return VSlice{Obj: x.Obj, Off: Ite(c, x.Off, y.Off), Len: Ite(c, x.Len, y.Len), Cap: Ite(c, x.Cap, y.Cap), Nil: Ite(c, nilT(x.Nil), nilT(y.Nil))}
		}
	case VPtr:
		y := b.(VPtr)
		if x.Obj == y.Obj && len(x.Path) == 0 && len(y.Path) == 0 && x.Global == y.Global {
			return VPtr{Obj: x.Obj, Nil: Ite(c, nilT(x.Nil), nilT(y.Nil)), Global: x.Global}
		}
	case VStr:
		y := b.(VStr)
		if x.Lit != nil && y.Lit != nil && *x.Lit == *y.Lit {
			return x
		}
	}
	if valuesIdentical(a, b) {
		return a
	}
	oos("cannot merge values %s / %s under symbolic condition", describe(a), describe(b))
	return nil
}

func nilT(t *Term) *Term {
	if t == nil {
		return False
	}
	return t
}

func valuesIdentical(a, b Value) bool {
	return describe(a) == describe(b)
}

// loadPtr reads the value a pointer designates. Nil checks are done by the caller.
func (s *State) loadPtr(p VPtr) Value {
	if p.Global != nil {
		id, ok := s.globals[p.Global]
		if !ok {
			// non-repo global (e.g. binary.BigEndian): unconstrained value of its type
			et := p.Global.Type().Underlying().(*types.Pointer).Elem()
			return getPath(s.symValue(et, "extglobal."+p.Global.Pkg.Pkg.Name()+"."+p.Global.Name(), 1, false), p.Path)
		}
		return getPath(s.heap[id].Val, p.Path)
	}
	o := s.heap[p.Obj]
	if o == nil {
		oos("load through dangling pointer obj%d", p.Obj)
	}
	switch o.Kind {
	case okCell:
		return getPath(o.Val, p.Path)
	case okBytes:
		if len(p.Path) != 1 || p.Path[0].Index == nil {
			oos("bad path into bytes object")
		}
		return VInt{o.Mem.Read(p.Path[0].Index)}
	case okSeq:
		if len(p.Path) < 1 || p.Path[0].Index == nil {
			oos("bad path into seq object")
		}
		ev := s.seqRead(o, p.Path[0].Index)
		return getPath(ev, p.Path[1:])
	}
	return nil
}

func (s *State) storePtr(p VPtr, v Value) {
	if p.Global != nil {
		id, ok := s.globals[p.Global]
		if !ok {
			oos("store to unmodelled global %s", p.Global.Name())
		}
		o := s.heap[id]
		c := *o
		c.Val = setPath(o.Val, p.Path, v)
		s.heap[id] = &c
		return
	}
	o := s.heap[p.Obj]
	if o == nil {
		oos("store through dangling pointer obj%d", p.Obj)
	}
	c := *o
	switch o.Kind {
	case okCell:
		c.Val = setPath(o.Val, p.Path, v)
	case okBytes:
		if len(p.Path) != 1 || p.Path[0].Index == nil {
			oos("bad path into bytes object")
		}
		c.Mem = o.Mem.Store(p.Path[0].Index, v.(VInt).T)
	case okSeq:
		if len(p.Path) < 1 || p.Path[0].Index == nil {
			oos("bad path into seq object")
		}
		idx := p.Path[0].Index
		nv := v
		if len(p.Path) > 1 {
			old := s.seqRead(o, idx)
			o = s.heap[p.Obj] // seqRead may have memoised
			c = *o
			nv = setPath(old, p.Path[1:], v)
		}
		c.Seq = seqStore(o.Seq, idx, nv)
	}
	s.heap[p.Obj] = &c
}

// seqRead reads element idx. Stored entries are searched newest first (a store at a possibly
// equal symbolic index yields an ite); below them, unknown elements of symbolic sequences are
// materialised and memoised by syntactic index (two syntactically different indices get two
// independent symbolic elements: an over-approximation, sound for proving).
func (s *State) seqRead(o *Object, idx *Term) Value {
	v := s.seqReadFrom(o, idx, len(o.Seq.entries)-1)
	if seqReadHook != nil && !inSeqHook {
		inSeqHook = true
		seqReadHook(s, s.heap[o.ID], idx, v)
		inSeqHook = false
	}
	return v
}

// seqReadHook instantiates universal facts at an element read (set by the executor): wf of the element when the
// sequence carries an allwf fact, and the sum unfolding at idx+1 when sums over this sequence are in use.
var seqReadHook func(st *State, o *Object, idx *Term, v Value)
var inSeqHook bool

func (s *State) seqReadFrom(o *Object, idx *Term, upto int) Value {
	q := o.Seq
	for i := upto; i >= 0; i-- {
		e := q.entries[i]
		if e.idx == idx {
			return e.val
		}
		if e.idx.IsConst() && idx.IsConst() {
			continue
		}
		rest := s.seqReadFrom(o, idx, i-1)
		return iteValue(Eq(e.idx, idx), e.val, rest)
	}
	if q.zero {
		return zeroValue(q.elemT)
	}
	for _, e := range q.memo {
		if e.idx == idx {
			return e.val
		}
	}
	v := s.symValue(q.elemT, fmt.Sprintf("%s[%s]", q.name, idxName(idx)), 3, false)
	cur := s.heap[o.ID]
	c := *cur
	nq := *cur.Seq
	nq.memo = append(append([]seqEntry{}, cur.Seq.memo...), seqEntry{idx, v})
	c.Seq = &nq
	s.heap[o.ID] = &c
	return v
}

func idxName(t *Term) string {
	if t.IsConst() {
		return fmt.Sprint(t.Val)
	}
	if t.Op == "var" {
		return t.Name
	}
	return fmt.Sprintf("t%d", t.id)
}

func seqStore(q *SeqMem, idx *Term, v Value) *SeqMem {
	nq := *q
	nq.entries = append(append([]seqEntry{}, q.entries...), seqEntry{idx, v})
	return &nq
}

// ---------- symbolic materialisation ----------

var opaqueErrType = types.NewNamed(types.NewTypeName(0, nil, "opaqueError", nil), types.NewStruct(nil, nil), nil)

const maxLenBits = 40

// namedVar returns the variable with this name, disambiguating by sort when the name is already
// used with another sort (variables of different function verifications never meet in one query).
func namedVar(name string, s Sort) *Term {
	n := sanitize(name)
	if old, ok := varSorts[n]; ok && old != s {
		n = fmt.Sprintf("%s$%d_%d", n, s.K, s.W)
	}
	return Var(n, s)
}

// symValue creates a symbolic value of type t. nonNil applies to the outermost pointer only.
func (s *State) symValue(t types.Type, name string, depth int, nonNil bool) Value {
	if tn, ok := t.(*types.Named); ok && tn.Obj().Pkg() != nil && tn.Obj().Pkg().Path() == "bytes" && tn.Obj().Name() == "Buffer" {
		return s.symBytesBuffer(t, name)
	}
	switch u := t.Underlying().(type) {
	case *types.Basic:
		if w, _, ok := intInfo(u); ok {
			return VInt{namedVar(name, BV(w))}
		}
		if isBool(u) {
			return VBool{namedVar(name, BoolSort)}
		}
		if isString(u) {
			return VStr{ID: namedVar(name+"#str", BV(64))}
		}
		return VOpaque{T: t, ID: namedVar(name+"#opq", BV(64))}
	case *types.Struct:
		f := make([]Value, u.NumFields())
		for i := range f {
			f[i] = s.symValue(u.Field(i).Type(), name+"."+u.Field(i).Name(), depth, false)
		}
		return VStruct{f}
	case *types.Array:
		n := int(u.Len())
		if n > 512 {
			oos("array too large to materialise: %d", n)
		}
		e := make([]Value, n)
		for i := range e {
			e[i] = s.symValue(u.Elem(), fmt.Sprintf("%s[%d]", name, i), depth, false)
		}
		return VArray{e}
	case *types.Pointer:
		if depth <= 0 {
			return VPtr{Obj: -1, Nil: namedVar((name + "==nil"), BoolSort)}
		}
		inner := s.symValue(u.Elem(), "*"+name, depth-1, false)
		p := s.allocCell(inner, false, name)
		s.heap[p.Obj].T = u.Elem()
		if !nonNil {
			p.Nil = namedVar((name + "==nil"), BoolSort)
		}
		return p
	case *types.Slice:
		ln := namedVar((name + ".len"), BV(64))
		cp := namedVar((name + ".cap"), BV(64))
		isnil := namedVar((name + "==nil"), BoolSort)
		s.assume(ULe(ln, cp))
		s.assume(ULe(cp, Const(64, 1<<maxLenBits)))
		s.assume(Implies(isnil, Eq(cp, Const(64, 0))))
		var id int
		if isByte(u.Elem()) {
			id = s.allocBytes(bmBaseOf(namedVar((name+"[]"), ArrSort)), cp, false, name)
		} else {
			id = s.allocSeq(u.Elem(), cp, false, false, name)
		}
		return VSlice{Obj: id, Off: Const(64, 0), Len: ln, Cap: cp, Nil: isnil}
	case *types.Interface:
		return VIface{ID: namedVar((name + "#id"), BV(64)), Nil: namedVar((name + "==nil"), BoolSort)}
	case *types.Signature:
		return VOpaque{T: t, ID: namedVar((name + "#fn"), BV(64))}
	}
	return VOpaque{T: t, ID: namedVar((name + "#opq"), BV(64))}
}

// bytes.Buffer is modelled on its real fields buf/off (contents = buf[off:len(buf)]) with
// the type invariant 0 <= off <= len(buf); lastRead is irrelevant to the modelled methods.
func (s *State) symBytesBuffer(t types.Type, name string) Value {
	st := t.Underlying().(*types.Struct)
	f := make([]Value, st.NumFields())
	for i := range f {
		fld := st.Field(i)
		switch fld.Name() {
		case "buf":
			f[i] = s.symValue(fld.Type(), name+".buf", 1, false)
		case "off":
			f[i] = s.symValue(fld.Type(), name+".off", 1, false)
		default:
			f[i] = zeroValue(fld.Type())
		}
	}
	var buf VSlice
	var off VInt
	for i := range f {
		switch st.Field(i).Name() {
		case "buf":
			buf = f[i].(VSlice)
		case "off":
			off = f[i].(VInt)
		}
	}
	s.assume(ULe(off.T, buf.Len))
	return VStruct{f}
}

func bufferFieldIdx(t types.Type, name string) int {
	st := t.Underlying().(*types.Struct)
	for i := 0; i < st.NumFields(); i++ {
		if st.Field(i).Name() == name {
			return i
		}
	}
	panic("no field " + name)
}
