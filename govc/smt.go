package main

// Solver portfolio: z3-new (5.1.0) first, cvc5 and z3 4.8.12 raced after a short delay.

import (
	"bytes"
	"context"
	"fmt"
	"os"
	"os/exec"
	"path/filepath"
	"regexp"
	"strconv"
	"strings"
	"sync"
	"time"
)

type SolveResult struct {
	Status  string // "unsat", "sat", "unknown", "timeout", "error"
	Backend string
	Seconds float64
	Output  string
	Values  []uint64 // values of getVals (for sat), parallel to request; ok flags in ValOK
	ValOK   []bool
}

type backend struct {
	name string
	cmd  string
	args func(timeoutS int, file string) []string
}

var backends = []backend{
	{"z3-5.1.0", "z3-new", func(t int, f string) []string { return []string{fmt.Sprintf("-T:%d", t), f} }},
	{"cvc5-1.0.3", "cvc5", func(t int, f string) []string {
		return []string{"--produce-models", fmt.Sprintf("--tlimit=%d", t*1000), f}
	}},
	{"z3-4.8.12", "/usr/bin/z3", func(t int, f string) []string { return []string{fmt.Sprintf("-T:%d", t), f} }},
}

var scratchDir string
var scratchOnce sync.Once
var scriptCtr int
var scriptMu sync.Mutex

func scratch() string {
	scratchOnce.Do(func() {
		base := "/dev/shm"
		if _, err := os.Stat(base); err != nil {
			base = os.TempDir()
		}
		d, err := os.MkdirTemp(base, "govc-")
		if err != nil {
			panic(err)
		}
		scratchDir = d
	})
	return scratchDir
}

func cleanupScratch() {
	if scratchDir != "" {
		os.RemoveAll(scratchDir)
	}
}

func runBackend(ctx context.Context, b backend, file string, timeoutS int) (string, string) {
	cctx, cancel := context.WithTimeout(ctx, time.Duration(timeoutS+2)*time.Second)
	defer cancel()
	cmd := exec.CommandContext(cctx, b.cmd, b.args(timeoutS, file)...)
	var out bytes.Buffer
	cmd.Stdout = &out
	cmd.Stderr = &out
	cmd.Run()
	s := out.String()
	first := strings.TrimSpace(strings.SplitN(s, "\n", 2)[0])
	switch first {
	case "sat", "unsat":
		return first, s
	case "unknown":
		return "unknown", s
	case "timeout":
		return "timeout", s
	}
	if cctx.Err() != nil {
		return "timeout", s
	}
	if strings.Contains(s, "timeout") || strings.Contains(s, "interrupted") {
		return "timeout", s
	}
	return "error", s
}

// Solve runs the portfolio on a script; mode "first" = first decisive answer wins,
// "agree" = two back ends must give the same decisive answer (thorough tier).
func Solve(script string, timeoutS int, nvals int, mode string) SolveResult {
	scriptMu.Lock()
	scriptCtr++
	n := scriptCtr
	scriptMu.Unlock()
	file := filepath.Join(scratch(), fmt.Sprintf("q%d.smt2", n))
	os.WriteFile(file, []byte(script), 0o644)
	defer os.Remove(file)
	start := time.Now()
	ctx, cancel := context.WithCancel(context.Background())
	defer cancel()
	type ans struct {
		st, out, be string
	}
	ch := make(chan ans, len(backends))
	launch := func(b backend) {
		go func() {
			st, out := runBackend(ctx, b, file, timeoutS)
			ch <- ans{st, out, b.name}
		}()
	}
	launch(backends[0])
	launched := 1
	var delay <-chan time.Time
	if mode == "agree" {
		launch(backends[1])
		launched = 2
	} else {
		delay = time.After(1500 * time.Millisecond)
	}
	got := 0
	var decisive []ans
	var last ans
	for got < launched || delay != nil {
		select {
		case a := <-ch:
			got++
			last = a
			if a.st == "sat" || a.st == "unsat" {
				decisive = append(decisive, a)
				if mode != "agree" || len(decisive) >= 2 {
					goto done
				}
			}
			if got == launched && delay == nil && launched < len(backends) {
				// everything so far undecided: try the remaining back end
				launch(backends[launched])
				launched++
			}
		case <-delay:
			delay = nil
			for launched < len(backends) {
				launch(backends[launched])
				launched++
			}
		}
	}
done:
	res := SolveResult{Seconds: time.Since(start).Seconds()}
	if len(decisive) == 0 {
		res.Status = last.st
		if res.Status == "error" {
			res.Status = "error"
		}
		res.Backend = last.be
		res.Output = last.out
		return res
	}
	if mode == "agree" {
		if len(decisive) < 2 {
			res.Status = "unknown"
			res.Backend = decisive[0].be
			res.Output = "only one back end decided (" + decisive[0].st + "): " + decisive[0].out
			return res
		}
		if decisive[0].st != decisive[1].st {
			res.Status = "error"
			res.Backend = decisive[0].be + "+" + decisive[1].be
			res.Output = "back ends disagree: " + decisive[0].st + " vs " + decisive[1].st
			return res
		}
		res.Backend = decisive[0].be + "+" + decisive[1].be
	} else {
		res.Backend = decisive[0].be
	}
	res.Status = decisive[0].st
	res.Output = decisive[0].out
	if res.Status == "sat" && nvals > 0 {
		res.Values, res.ValOK = parseValues(res.Output, nvals)
	}
	return res
}

var valRe = regexp.MustCompile(`(#x[0-9a-fA-F]+|#b[01]+|\btrue\b|\bfalse\b|\(_ bv([0-9]+) [0-9]+\))\)\)\s*$`)

// parseValues reads the "(get-value (t))" answers, one per line group, in order.
func parseValues(out string, n int) ([]uint64, []bool) {
	vals := make([]uint64, n)
	oks := make([]bool, n)
	// split into top-level s-expressions after the first line
	rest := out
	if i := strings.Index(rest, "\n"); i >= 0 {
		rest = rest[i+1:]
	} else {
		return vals, oks
	}
	idx := 0
	depth := 0
	start := -1
	inBar := false
	for i := 0; i < len(rest) && idx < n; i++ {
		c := rest[i]
		if c == '|' {
			inBar = !inBar
			continue
		}
		if inBar {
			continue
		}
		if c == '(' {
			if depth == 0 {
				start = i
			}
			depth++
		} else if c == ')' {
			depth--
			if depth == 0 && start >= 0 {
				sexp := rest[start : i+1]
				if strings.HasPrefix(sexp, "(error") {
					idx++
					start = -1
					continue
				}
				m := valRe.FindStringSubmatch(sexp)
				if m != nil {
					v := m[1]
					switch {
					case strings.HasPrefix(v, "#x"):
						u, err := strconv.ParseUint(v[2:], 16, 64)
						if err == nil {
							vals[idx], oks[idx] = u, true
						}
					case strings.HasPrefix(v, "#b"):
						u, err := strconv.ParseUint(v[2:], 2, 64)
						if err == nil {
							vals[idx], oks[idx] = u, true
						}
					case v == "true":
						vals[idx], oks[idx] = 1, true
					case v == "false":
						vals[idx], oks[idx] = 0, true
					default:
						u, err := strconv.ParseUint(m[2], 10, 64)
						if err == nil {
							vals[idx], oks[idx] = u, true
						}
					}
				}
				idx++
				start = -1
			}
		}
	}
	return vals, oks
}
