#!/usr/bin/env python3
"""Generates <pkg>/zz_contracts_zlayout_verif.go in /repo from /verif/spec/layouts.tbl: for every kind the wire
layout (written from the specifications) becomes postconditions on the kind's real MarshalBinary ([C03]: every
supplied value sits at its specified offset, width and byte order; constants and pads as specified) and on its
real UnmarshalBinary ([C04]: every field of the result is the big-endian value at its specified offset).
The clauses are added to the function's existing contract block with `also` (so they are proved together with,
and with the help of, the loop invariants already there; the fixed-part facts are added to every loop of the
encoder as invariants). Usage: gen_layout_contracts.py [--repo /repo]"""
import re, sys, os, glob, collections

REPO = "/repo"
if "--repo" in sys.argv:
    REPO = sys.argv[sys.argv.index("--repo") + 1]
TBL = os.path.join(os.path.dirname(os.path.abspath(__file__)), "..", "spec", "layouts.tbl")

def parse_tbl():
    kinds = []
    cur = None
    curd = None
    for ln, raw in enumerate(open(TBL), 1):
        l = raw.split("#")[0].rstrip()
        if not l.strip():
            continue
        f = l.split()
        if f[0] == "dispatch":
            # dispatch <Func> <params> ; <results> ; <selector expr with {data}>
            parts = l.split(None, 1)[1].split(";")
            cur = None
            curd = (parts[2].strip(), parts[0].split(None, 1)[1].strip(), parts[1].strip(), [])
            DISPATCH[parts[0].split()[0]] = curd
            continue
        if f[0] == "case":
            curd[3].append((f[1], f[2]))
            continue
        if f[0] == "kind":
            cur = dict(pkg=f[1], typ=f[2], flags=f[3:], items=[], line=ln)
            kinds.append(cur)
        else:
            cur["items"].append((f, ln))
    return kinds

HDR = re.compile(r"^//@\s+(func|decoder|elemdecoder)\s+(\(\*?\w+\)\.\w+)\((.*?)\)\s*(?:\((.*?)\))?")

def existing(pkg):
    """ref -> (params, results, loops) from the hand-written contract files of the package"""
    out = {}
    for fn in sorted(glob.glob(os.path.join(REPO, pkg, "zz_contracts*_verif.go"))):
        if "zlayout" in fn:
            continue
        cur = None
        for l in open(fn):
            m = HDR.match(l.strip())
            if m:
                cur = dict(params=[p.strip() for p in m.group(3).split(",") if p.strip()],
                           results=[p.strip() for p in (m.group(4) or "").split(",") if p.strip()], loops=[])
                out[m.group(2)] = cur
                continue
            if not l.strip():
                cur = None
            elif cur is not None:
                m2 = re.match(r"^//@\s+loop\s+(\d+):", l.strip())
                if m2:
                    cur["loops"].append(int(m2.group(1)))
    return out

WIDTH = {"u8": 1, "u16": 2, "u32": 4, "u64": 8, "c8": 1, "c16": 2, "c32": 4, "bool8": 1}
RD = {1: "u8", 2: "be16", 4: "be32", 8: "be64"}

class Off:
    """offset = constant + symbolic size terms"""
    def __init__(self):
        self.c = 0
        self.terms = []
    def s(self, extra=0):
        parts = ([str(self.c + extra)] if (self.c + extra) or not self.terms else []) + self.terms
        return " + ".join(parts)
    def known(self):
        return not self.terms

def gen_kind(k, ex):
    typ = k["typ"]
    encref, decref = "(*%s).MarshalBinary" % typ, "(*%s).UnmarshalBinary" % typ
    enc, dec = [], []          # clause bodies
    accepts = []
    minlen = 0
    def both(items, v, d, data_e, data_d):
        nonlocal minlen
        off = Off()
        for f, ln in items:
            op = f[0]
            o = off.s()
            if op in ("u8", "u16", "u32", "u64"):
                w = WIDTH[op]
                enc.append("%s(%s, %s) == uint%d(%s.%s)" % (RD[w], data_e, o, 8 * w, v, f[1]))
                dec.append("uint%d(%s.%s) == %s(%s, %s)" % (8 * w, d, f[1], RD[w], data_d, o))
                off.c += w
            elif op == "bool8":
                enc.append("u8(%s, %s) == ite(%s.%s, 1, 0)" % (data_e, o, v, f[1]))
                dec.append("%s.%s == (u8(%s, %s) != 0)" % (d, f[1], data_d, o))
                off.c += 1
            elif op in ("c8", "c16", "c32"):
                w = WIDTH[op]
                enc.append("%s(%s, %s) == %s" % (RD[w], data_e, o, f[1]))
                if len(f) > 2:
                    dec.append("%s.%s == %s(%s, %s)" % (d, f[2], RD[w], data_d, o))
                off.c += w
            elif op == "len16":
                rest = f[1:]
                fixed = None
                if rest and rest[0].isdigit():
                    fixed = int(rest[0])
                    rest = rest[1:]
                enc.append("be16(%s, %s) == uint16(len(%s))" % (data_e, o, data_e))
                if fixed is not None:
                    enc.append("len(%s) == %d" % (data_e, fixed))
                if rest:
                    dec.append("%s.%s == be16(%s, %s)" % (d, rest[0], data_d, o))
                if "nosize" not in k["flags"]:
                    # nothing dropped, nothing invented: for a conformant length (the fixed value, or at least the
                    # fixed part and aligned) what was decoded accounts for exactly the announced length
                    lenexpr = "int(be16(%s, %s))" % (data_d, o)
                    if fixed is not None:
                        conf = "%s == %d" % (lenexpr, fixed)
                    else:
                        conf = "%s >= {FIXED}" % lenexpr + (" && %s %% 8 == 0" % lenexpr if any(x[0][0] == "align8" for x in items) else "")
                    if any(x[0][0] == "list" for x in items):
                        dec.append("@RT@(%s ==> size(%s) >= %s)" % (conf, d, lenexpr))      # the list is decoded up to the announced length: nothing dropped
                    if "sizelax" not in k["flags"]:
                        dec.append("@RT@(%s ==> size(%s) <= %s)" % (conf, d, lenexpr))  # nothing beyond it is taken in
                off.c += 2
            elif op in ("mac", "ip4", "ip6", "bytes"):
                n = {"mac": 6, "ip4": 4, "ip6": 16}.get(op) or int(f[1])
                fld = f[-1]
                enc.append("(len(%s.%s) == %d ==> bytes_eq(%s, %s, %s.%s, 0, %d))" % (v, fld, n, data_e, o, v, fld, n))
                if op == "ip4":
                    # net.IP: the 4-byte form or the 16-byte IPv4-in-IPv6 form hold the same address
                    def eq4(base):
                        return " && ".join("u8(%s.%s, %d) == u8(%s, %s)" % (d, fld, base + i, data_d, off.s(i)) for i in range(4))
                    dec.append("((len(%s.%s) == 4 && %s) || (len(%s.%s) == 16 && %s))" % (d, fld, eq4(0), d, fld, eq4(12)))
                else:
                    dec.append("len(%s.%s) == %d && bytes_eq(%s.%s, 0, %s, %s, %d)" % (d, fld, n, d, fld, data_d, o, n))
                off.c += n
            elif op == "arr":
                n = int(f[1])
                for i in range(n):
                    enc.append("u8(%s, %s) == %s.%s[%d]" % (data_e, off.s(i), v, f[2], i))
                    dec.append("%s.%s[%d] == u8(%s, %s)" % (d, f[2], i, data_d, off.s(i)))
                off.c += n
            elif op == "pad":
                n = int(f[1])
                cond = " ".join(f[2:]).replace("{v}", v)
                def zarr(m):
                    return "(" + " && ".join("%s[%d] == 0" % (m.group(1), i) for i in range(int(m.group(2)))) + ")"
                cond = re.sub(r"zarr\(([^,]+),(\d+)\)", zarr, cond)
                for i in range(n):
                    c = "u8(%s, %s) == 0" % (data_e, off.s(i))
                    # allzero(X) for byte i of the pad: only X[i] matters (allzero cannot stand left of ==>)
                    ci = re.sub(r"allzero\(([^)]+)\)", lambda m: "(len(%s) > %d ==> %s[%d] == 0)" % (m.group(1), i, m.group(1), i), cond)
                    enc.append("(%s ==> %s)" % (ci, c) if ci else c)
                off.c += n
            elif op == "total":
                enc.append("len(%s) == %s" % (data_e, f[1]))
                dec.append("size(%s) == %s" % (d, f[1]))
            elif op == "accept":
                accepts.append(" ".join(f[1:]).replace("{data}", data_d))
            elif op == "any":
                off.c += int(f[1])
            elif op == "oxmhdr":
                fld = f[1]
                enc.append("be32(%s, %s) == uint32(%s.%s.Class) * 65536 + uint32(%s.%s.Field) * 512 + ite(%s.%s.HasMask, 256, 0) + uint32(%s.%s.Length)" % (data_e, o, v, fld, v, fld, v, fld, v, fld))
                dec.append("%s.%s != nil && %s.%s.Class == be16(%s, %s) && %s.%s.Field == u8(%s, %s) / 2 && %s.%s.HasMask == (u8(%s, %s) %% 2 == 1) && %s.%s.Length == u8(%s, %s)" % (
                    d, fld, d, fld, data_d, o, d, fld, data_d, off.s(2), d, fld, data_d, off.s(2), d, fld, data_d, off.s(3)))
                off.c += 4
            elif op == "hdr":
                t = f[1]
                hp = f[2] if len(f) > 2 else "Header"
                if "nosize" not in k["flags"]:
                    allfixed = not any(x[0][0] in ("enc", "list", "rest", "align8") for x in items)
                    if any(x[0][0] == "list" for x in items):
                        dec.append("@RT@((len(%s) == int(be16(%s, 2)) && len(%s) %s {FIXEDALL}) ==> size(%s) >= len(%s))" % (data_d, data_d, data_d, "==" if allfixed else ">=", d, data_d))
                    if "sizelax" not in k["flags"]:
                        dec.append("@RT@((len(%s) == int(be16(%s, 2)) && len(%s) %s {FIXEDALL}) ==> size(%s) <= len(%s))" % (data_d, data_d, data_d, "==" if allfixed else ">=", d, data_d))
                enc.append("u8(%s, 0) == 4" % data_e)
                if t == "*":
                    enc.append("u8(%s, 1) == %s.%s.Type" % (data_e, v, hp))
                else:
                    enc.append("u8(%s, 1) == %s" % (data_e, t))
                enc.append("be16(%s, 2) == uint16(len(%s))" % (data_e, data_e))
                enc.append("be32(%s, 4) == %s.%s.Xid" % (data_e, v, hp))
                dec.append("%s.%s.Version == u8(%s, 0) && %s.%s.Type == u8(%s, 1) && %s.%s.Length == be16(%s, 2) && %s.%s.Xid == be32(%s, 4)" % (d, hp, data_d, d, hp, data_d, d, hp, data_d, d, hp, data_d))
                off.c += 8
            elif op == "enc":
                if len(f) > 2 and f[2] in KINDS:
                    # the child's leading fixed fields, at the child's offset (pins where the child is placed / read from)
                    coff = 0
                    for cf, _ in KINDS[f[2]]["items"]:
                        cop = cf[0]
                        if cop in ("u8", "u16", "u32", "u64"):
                            w = WIDTH[cop]
                            enc.append("%s(%s, %s) == uint%d(%s.%s.%s)" % (RD[w], data_e, off.s(coff), 8 * w, v, f[1], cf[1]))
                            dec.append("uint%d(%s.%s.%s) == %s(%s, %s)" % (8 * w, d, f[1], cf[1], RD[w], data_d, off.s(coff)))
                            coff += w
                        elif cop == "mac":
                            enc.append("(len(%s.%s.%s) == 6 ==> bytes_eq(%s, %s, %s.%s.%s, 0, 6))" % (v, f[1], cf[1], data_e, off.s(coff), v, f[1], cf[1]))
                            dec.append("len(%s.%s.%s) == 6 && bytes_eq(%s.%s.%s, 0, %s, %s, 6)" % (d, f[1], cf[1], d, f[1], cf[1], data_d, off.s(coff)))
                            coff += 6
                        elif cop == "pad" or cop == "any":
                            coff += int(cf[1])
                        else:
                            break
                off.terms.append("size(%s.%s)" % ("{V}", f[1]))
            elif op == "rest":
                if len(f) > 1:
                    dec.append("blen(%s.%s) == len(%s) - (%s)" % (d, f[1], data_d, o))
                break
            elif op == "parsewhen":
                k["parsewhen"] = " ".join(f[1:])
            elif op in ("list", "align8"):
                break
            else:
                raise SystemExit("layouts.tbl:%d: unknown item %s" % (ln, op))
            if off.known():
                minlen = off.c
    e = ex.get(encref)
    dcd = ex.get(decref)
    ev = e["params"][0] if e else "self"
    edata = (e["results"][0] if e and e["results"] else "data")
    dv = dcd["params"][0] if dcd else "self"
    ddata = dcd["params"][1] if dcd and len(dcd["params"]) > 1 else "data"
    derr = dcd["results"][0] if dcd and dcd["results"] else "err"
    both(k["items"], ev, dv, edata, ddata)
    # fixed-size kinds: a decoder must succeed on every input that holds the whole element with the specified
    # constants and length
    ops = [f[0] for f, _ in k["items"]]
    if not accepts and not any(o in ("enc", "list", "rest", "align8", "hdr") for o in ops) and "noaccept" not in k["flags"]:
        conds, off = [], 0
        for f, _ in k["items"]:
            op = f[0]
            if op in ("c8", "c16", "c32"):
                conds.append("%s(%s, %d) == %s" % (RD[WIDTH[op]], ddata, off, f[1]))
                off += WIDTH[op]
            elif op == "len16":
                if len(f) > 1 and f[1].isdigit():
                    conds.append("be16(%s, %d) == %s" % (ddata, off, f[1]))
                off += 2
            elif op in WIDTH:
                off += WIDTH[op]
            elif op in ("mac", "ip4", "ip6"):
                off += {"mac": 6, "ip4": 4, "ip6": 16}[op]
            elif op in ("bytes", "arr", "pad", "any"):
                off += int(f[1])
            elif op == "total":
                pass
            elif op == "oxmhdr":
                off += 4
        accepts.append(" && ".join(["len(%s) >= %d" % (ddata, off)] + conds))
    enc2 = [c.replace("{V}", ev) for c in enc]
    dec2 = [c.replace("{V}", dv).replace("{FIXEDALL}", str(minlen)).replace("{FIXED}", str(minlen)) for c in dec]
    out = []
    src = "spec/layouts.tbl:%d" % k["line"]
    if "noenc" not in k["flags"] and enc2:
        if e:
            out.append("//@ also %s(%s) (%s) [C03]   // %s" % (encref, ", ".join(e["params"]), ", ".join(e["results"]), src))
        else:
            out.append("//@ func %s(%s) (%s, err) [C03]   // %s" % (encref, ev, edata, src))
        facts = []
        for c in enc2:
            out.append("//@   ensures[C03] %s" % c)
            if "len(" + edata + ")" not in c:   # facts about bytes already written are loop invariants too
                facts.append(c)
        for lp in (e["loops"] if e else []):
            out.append("//@   loop %d:" % lp)
            for c in facts:
                out.append("//@     invariant[C03] %s" % c)
        out.append("")
    hdrs = [f for f, _ in k["items"] if f[0] == "hdr" and f[1].isdigit()]
    if hdrs and dec2 and dcd and "nodec" not in k["flags"]:
        gk = ("*" + typ) if k["pkg"] == "openflow13" else ("*%s.%s" % (k["pkg"], typ))
        facts = [re.sub(r"\b%s\b" % re.escape(ddata), "b", re.sub(r"\b%s\." % re.escape(dv), "message.(%s)." % gk, re.sub(r"\b%s\)" % re.escape(dv), "message.(%s))" % gk, c))) for c in dec2]
        PARSE.append((hdrs[0][1], k.get("parsewhen", ""), gk, facts))
    if "nodec" not in k["flags"] and dec2 and dcd:
        out.append("//@ also %s(%s) (%s) [C04]   // %s" % (decref, ", ".join(dcd["params"]), ", ".join(dcd["results"]), src))
        for c in accepts:
            out.append("//@   ensures[C04] %s ==> %s == nil" % (c, derr))
        for c in dec2:
            if c.startswith("@RT@"):
                out.append("//@   ensures[C04 C05] %s == nil ==> %s" % (derr, c[4:]))
            else:
                out.append("//@   ensures[C04] %s == nil ==> %s" % (derr, c))
        out.append("")
    return out

DISPATCH_MARK = ["//@DISPATCH@", ""]
DISPATCH = {}
KINDS = {}
PARSE = []   # (type code, extra condition, Go kind, [decoder facts])

def main():
    kinds = parse_tbl()
    for k in kinds:
        KINDS[k["typ"]] = k
        KINDS[k["pkg"] + "." + k["typ"]] = k
    bypkg = collections.OrderedDict()
    for k in kinds:
        bypkg.setdefault(k["pkg"], []).append(k)
    total = 0
    for pkg, ks in bypkg.items():
        ex = existing(pkg)
        lines = ["//go:build verif", "",
                 "// GENERATED by /verif/tools/gen_layout_contracts.py from /verif/spec/layouts.tbl - do not edit.",
                 "// Wire layouts written from the specifications, as postconditions on the real encoders (C03) and decoders (C04).",
                 "", "package " + pkg, ""]
        if pkg == "openflow13":
            lines += ["//@ property C03 min-obligations 600", "//@ property C04 min-obligations 300", ""]
        for k in ks:
            g = gen_kind(k, ex)
            total += sum(1 for l in g if "ensures[" in l)
            lines += g
        if pkg == "openflow13":
            lines += DISPATCH_MARK
        open(os.path.join(REPO, pkg, "zz_contracts_zlayout_verif.go"), "w").write("\n".join(lines) + "\n")
    # second pass for the openflow13 file: Parse facts and dispatcher tables need every kind processed
    fn = os.path.join(REPO, "openflow13", "zz_contracts_zlayout_verif.go")
    s = open(fn).read()
    extra = ["// the parser entry point hands out a message whose fields are the specified bytes (per kind, by type code)",
             "//@ also Parse(b) (message, err) [C04]"]
    for t, when, gk, facts in PARSE:
        cond = "err == nil && len(b) >= 8 && u8(b, 1) == %s" % t + ((" && " + when.replace("{data}", "b")) if when else "")
        for c in facts:
            extra.append("//@   ensures[C04 C05] (%s) ==> (typeis(message, %s) && %s)" % (cond, gk, c.replace("@RT@", "")))
    lf = os.path.join(REPO, "openflow13", "zz_lemmas_layout_verif.go")
    if os.path.exists(lf):
        os.remove(lf)
    extra.append("")
    for dname, (sel, dparams, dres, rows) in DISPATCH.items():
        extra.append("//@ also %s(%s) (%s) [C04]" % (dname, dparams, dres))
        r0 = dres.split(",")[0].strip()
        ok = ("%s == nil" % dres.split(",")[1].strip()) if "," in dres else ("%s != nil" % r0)
        for code, gk in rows:
            extra.append("//@   ensures[C04 C05] (%s && %s == %s) ==> typeis(%s, *%s)" % (ok, sel.replace("{data}", dparams.split(",")[0].strip()), code, r0, gk))
        extra.append("")
    s = s.replace("//@DISPATCH@", "\n".join(extra))
    open(fn, "w").write(s)
    total += sum(1 for l in extra if "ensures[" in l)
    print("layout clauses:", total)

main()
