#!/usr/bin/env python3
"""Re-runs the detection step for the filed seeded changes (seeded/<id>/patch.diff): applies each to /repo, runs the
property's quick check with the committed known-findings file, records the violations in meta.json, undoes it.
usage: reseed.py [id-substring ...]   (needs a clean /repo working tree)"""
import json, os, re, shutil, subprocess, sys, glob
ENV = dict(os.environ, GOFLAGS="-mod=mod", GOPROXY="off", GOSUMDB="off", GOTOOLCHAIN="local")

def sh(cmd, cwd, env=ENV):
    r = subprocess.run(cmd, cwd=cwd, env=env, capture_output=True, text=True)
    return r.returncode, r.stdout + r.stderr

def main():
    subs = sys.argv[1:]
    rc, out = sh(['git', 'status', '--porcelain'], '/repo')
    if out.strip():
        print('REPO NOT CLEAN'); sys.exit(2)
    for d in sorted(glob.glob('/verif/seeded/*')):
        sid = os.path.basename(d)
        if subs and not any(s in sid for s in subs):
            continue
        mp = os.path.join(d, 'meta.json')
        meta = json.load(open(mp))
        prop = meta['property']
        rc, out = sh(['git', 'apply', os.path.join(d, 'patch.diff')], '/repo')
        if rc != 0:
            meta['detection'] = {'error': 'patch no longer applies to /repo (the code it changed was repaired since): ' + out.strip()[:160]}
            json.dump(meta, open(mp, 'w'), indent=1)
            print(sid, 'PATCH-DOES-NOT-APPLY')
            continue
        try:
            tmpd = '/dev/shm/seedrun-' + sid
            os.makedirs(tmpd, exist_ok=True)
            shutil.copy('/verif/known_findings.txt', tmpd)
            rc2, out2 = sh(['/verif/bin/govc', 'check', prop, '--no-evidence'], '/verif', env=dict(ENV, GOVC_VERIF_DIR=tmpd))
            viol = [l for l in out2.splitlines() if l.startswith('VIOLATION')]
            meta['detection'] = {'check_cmd': 'bin/govc check %s --tier quick' % prop, 'exit': rc2, 'violations': [re.sub(r'replay=\S+ ', '', v) for v in viol[:6]],
                                 'detected': rc2 == 1 and bool(viol), 'replayed_on_real_code': any('reproduced-on-real-code' in l for l in viol)}
            shutil.rmtree(tmpd, ignore_errors=True)
        finally:
            sh(['git', 'checkout', '--', '.'], '/repo')
        json.dump(meta, open(mp, 'w'), indent=1)
        print(sid, 'detected' if meta['detection'].get('detected') else 'MISSED', 'replayed' if meta['detection'].get('replayed_on_real_code') else '')

main()
