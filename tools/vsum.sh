#!/bin/sh
# compact summary of `govc verify <regex>`: one line per function with failures, obligations abbreviated
/verif/bin/govc verify "$@" 2>&1 | grep -v conda | grep -v "^   inlined" | awk '
/^== /{ split($0,a," "); fn=a[2]; hdrshown=0; next }
/refuted|undecided|NOT VERIFIED/ { if(!hdrshown){printf "%s\n", fn; hdrshown=1} line=$0; sub(/^ +/,"",line); print "    " substr(line,1,230) }
' 
