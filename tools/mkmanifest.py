#!/usr/bin/env python3
"""Regenerates /verif/MANIFEST.json from the table below (single source of truth for the claims)."""
import json, subprocess, os

HOOK_COMMITS = subprocess.run(["git", "-C", "/repo", "log", "--format=%h %s", "--grep=^verif hooks"], capture_output=True, text=True).stdout.strip().splitlines()

TB = ("Trusted: go/ssa (source->SSA), the govc executor/contract evaluator, the SMT solvers; assumed contracts of "
      "externals and physical bounds are listed in the evidence file on every run.")

CLAIMS = {
 "C07": dict(
   text="Deductive proof for a byte string of symbolic length and content (no bound below 2^40): openflow13.Parse and every decoder in its call closure (106 functions: every UnmarshalBinary of openflow13 and common, DecodeAction, DecodeNxAction, DecodeInstr, DecodeMatchField with its ~110 field cases, decodeVendorData; the packet decoders reached through packet-in are the C08 functions) are verified against total contracts: every index, slice, nil dereference, call on a nil interface, type assertion, make and explicit panic is proved unreachable; every loop has an inductive invariant and a strictly decreasing variant bounded by the input length or a wire length already checked against it (element decoders guarantee 'decoded size >= 1 and <= remaining input', which the list loops of their callers use for progress and bounds); every make() allocates at most max(4096, len(input)) elements. Callers see callees only through their contracts; unknown type codes are proved to yield an error, not a nil dispatch.",
   note="Time is decided as termination with input-bounded variants, memory as a per-allocation bound. The recursion Parse -> VendorHeader -> BundleAdd -> Parse is cut by contracts (each nested Parse receives a strictly shorter slice, data[8:]); no separate recursion-variant obligation is generated. Receivers are as allocated by the real dispatchers (requires: list fields of the receiver empty), checked at every call site inside the closure. log/logrus calls are assumed pure. " + TB,
   technique="contract-based deductive verification: safety + termination + allocation obligations from symbolic execution of go/ssa over a symbolic input array, QF_AUFBV, z3/cvc5",
   design="DESIGN.md section 4 C07"),
 "C12": dict(
   text="Deductive proof on the same closure as C07 plus the packet decoders of C08 (127 functions): in the executor every slice carries its backing object; for each decoder the obligation own/noalias states that no slice, array view or interface payload reachable from the receiver or the result (at every return and at every loop back edge) has the input buffer as backing object; callee contracts export the same guarantee, bytes.Buffer.Write and net.IPv4 are assumed to copy. A decoder that keeps a sub-slice of its input anywhere in the decoded value fails this obligation by construction.",
   note="The frame side (decoders modify only their receiver and what it owns) is proved under the same check. Replay: parse, overwrite the input, compare the JSON rendering of the value. " + TB,
   technique="contract-based deductive verification: ownership (backing-object) obligations from symbolic execution of go/ssa, decided by the executor's heap model",
   design="DESIGN.md section 4 C12"),
 "C01": dict(
   text="Deductive proof of message framing as an invariant over all builder histories: (1) every constructor of a controller-originated message (hello, echo request/reply, features/get-config request, set-config, flow-mod, group-mod, packet-out, port-mod, Nicira vendor messages, bundle control/add) is proved to establish wf(msg), which fixes Header.Version == 4 and Header.Type == the ofp_type code of the kind (automatic 'ensures wf(result)' contract on every New* function); (2) every adder (AddInstruction, AddBucket, AddAction, SetData, Match.AddField, Bucket/InstrActions/conntrack AddAction) is proved to preserve wf; (3) every top-level MarshalBinary is proved, for ALL command variants (Command is symbolic; delete variants are paths), all symbolic numbers of instructions/buckets/actions/fields and children of unknown dynamic type, to return bytes with data[0] == 4, data[1] == type code, be16(data,2) == len(data) == int(Len()) and to stamp Header.Length with that value; bundle-add and vendor wrappers embed ANY message through the interface contract, so nesting depth is unbounded. Header-only messages are closed by lemma functions executed from constructor to bytes.",
   note="Precondition: the value fits in 65535 bytes (as in the statement). Multipart requests and barrier requests have no constructor in the library: their wf (version/type set from the header generator) is assumed, the encoder part is proved. InstrActions.AddAction is under contract for the append path only (the prepend path appends a symbolic-length list, outside the executor's subset). " + TB,
   technique="contract-based deductive verification: representation invariant (wf) established by constructors / preserved by builders, byte-level framing postconditions with sum() loop invariants; QF_AUFBV, z3/cvc5",
   design="DESIGN.md section 4 C01"),
 "C02": dict(
   text="Deductive proof: every type implementing openflow13.Action or openflow13.Instruction inherits the interface contract 'be16(bytes,0) == type code of the kind, be16(bytes,2) == len(bytes), len(bytes) % 8 == 0' and, for type 0xffff, 'vendor == 0x00002320 and subtype == the NXAST code of the kind' (type codes from ofp_action_type / ofp_instruction_type / nicira-ext.h written as spec constants, not taken from the code); match (type 1, length = 4 + fields without padding, padded to 8), match field (class, field<<1|mask, body length), bucket (length = bytes, 8-aligned) and hello element have explicit clauses. Stored length fields are part of wf and proved to be established by every constructor and preserved by every builder (Match.AddField, PacketOut.AddAction, InstrActions.AddAction, conntrack AddAction: induction over all builder histories using sum() over appended lists); NAT, learn, note, reg-load2, controller, bucket encoders are proved to stamp their length with exactly their size. Since every element declares exactly the bytes it occupies and containers are concatenations (C06), a walk by declared lengths ends exactly at the end of the message.",
   note="Known findings (reported, not failing the check): ActionHeader/ActionMplsTtl/ActionNwTtl/InstrMeter encode 4-byte elements (missing codecs), hello version-bitmap element not padded for an even number of bitmaps. Learn-spec, TLV-map and bundle-property elements are covered for size only (C06). " + TB,
   technique="contract-based deductive verification: interface contracts with per-kind type-code spec functions, wf preservation by builders; QF_AUFBV, z3/cvc5",
   design="DESIGN.md section 4 C02"),
 "C06": dict(
   text="Deductive proof, for values of symbolic size (all field values, all list lengths, children of unknown dynamic type): every one of the 123 types that implement util.Message (openflow13, common, protocol, util) inherits the interface contract 'Len() == uint16(size(self))' and 'MarshalBinary() returns exactly size(self) bytes, err == nil' for well-formed values whose size fits 16 bits, where size() is a per-kind spec function (header + sum of children + specified padding). Containers are verified against their children's contract only (behavioural subtyping: each implementer's obligations include the interface clauses; a lookup of all implementers is mechanical), with loop invariants over sum() for every child list; every copy() in a make(Len())+copy encoder is proved not to truncate its source (enc/notrunc), so no child byte is dropped. 8/16-bit size arithmetic is bit-precise.",
   note="What is NOT yet proved here: that each child's bytes sit unmodified at their offset (byte-level embedding) - sizes, non-truncation and frames are. DHCP and LLDP (Read/Write API, not util.Message) are outside this check. wf(x) (pad buffers not longer than their slot, counts consistent with lists, non-nil mandatory children) is assumed as precondition; constructors/builders establishing it are checked under C01/C02 where claimed. " + TB,
   technique="contract-based deductive verification: interface contract inheritance, size spec functions, sum() loop invariants, no-truncation obligations at every copy; QF_AUFBV, z3/cvc5",
   design="DESIGN.md section 4 C06"),
 "C13": dict(
   text="Deductive proof for all 123 encodable types: Len() and MarshalBinary() each (1) leave size(self) unchanged and preserve wf(self) (two-state postconditions inherited from the interface contract), and (2) satisfy a frame condition proved by the executor: no location reachable from the receiver is modified except the explicitly listed derived fields (header/element length stamps, IPv4.IHL normalisation, NXActionResubmit.TableID), each of which is proved to be set to a function of the unmodified state (e.g. Header.Length == uint16(size(self)), NAT length == pad8(range fields present)), so a second call starts from a state that differs from the first only in fields that already hold their fixpoint value. Containers rely on children only through these clauses, so repeated sizing/embedding by wrappers (vendor, bundle) is covered for any nesting depth.",
   note="Byte-for-byte equality of two successive encodings is implied for kinds whose bytes are proved against a layout (C03, where claimed); here it rests on: sizes repeatable, state unchanged except fixpoint-valued derived fields. " + TB,
   technique="contract-based deductive verification: two-state postconditions + frame (modifies) obligations from symbolic execution of go/ssa; QF_AUFBV, z3/cvc5",
   design="DESIGN.md section 4 C13"),
 "C15": dict(
   text="Deductive proof on the real lookup function with a SYMBOLIC field name: the registry map is evaluated from the package initialiser's SSA, the map lookup forks into one path per registered key plus the not-found path, and 122 postconditions generated from an oracle table transcribed from OpenFlow 1.3.5 Table 12 / OVS meta-flow.h (class, field number, payload width; width doubled in the 8-bit length field and mask flag set when a mask is requested) are proved on every path; unknown names are proved to return an error and nil; results are proved fresh (independent values) and a lemma function proves that mutating one result does not change a second lookup. Header packing: pack and unpack are verified against the OXM header layout for all 2^32 words / all headers with a 7-bit field number, and two lemma functions prove they are exact inverses.",
   note="Case-insensitivity rests on the assumed contract of strings.ToUpper (uninterpreted function, evaluated concretely on literals). The oracle table was transcribed from the specifications from memory (no network). The race-freedom part is decided as absence of shared mutable state (see C14), not by exploring schedules. " + TB,
   technique="contract-based deductive verification: symbolic execution of go/ssa with path-per-map-entry, table-generated postconditions, QF_BV lemmas, z3/cvc5",
   design="DESIGN.md section 4 C15"),
 "C14": dict(
   text="Partial, stated honestly: (1) the header generator's closure is verified against a two-state contract (one atomic fetch-and-add of 1 on the process-wide counter per header; the header carries the value the add returned), so with the ASSUMED linearizable contract of sync/atomic.AddUint32 the k-th draw returns start+k and ids are pairwise distinct until 2^32 draws; (2) a whole-program frame scan over the SSA of every library function proves that the counter is referenced only as the first argument of sync/atomic functions and that no other package-level variable is stored to, updated, or leaked by address or by contained reference outside package initialisation (registry lookups return fresh values - proved deductively on FindFieldHeaderByName). Absence of shared mutable state gives race-freedom and sequential equivalence of operations on disjoint values by the standard non-interference argument; no scheduler interleaving is explored.",
   note="Not decided: anything that needs exploring schedules; races inside dependencies (logrus, math/rand) are assumed away; the per-function frame conditions of encoders/decoders (they modify only their own arguments) are proved under C06/C13/C08 where those are claimed, not here. " + TB,
   technique="contract-based deductive verification: two-state contract on the atomic id generator + whole-program frame (global-state) obligations from an SSA def-use scan",
   design="DESIGN.md section 4 C14 and section 5"),
 "C08": dict(
   text="Deductive proof for byte strings of symbolic length and content (no bound below 2^40): every packet-header decoder in package protocol (Ethernet/VLAN, ARP, IPv4, IPv6 with hop-by-hop, routing, fragment headers and options, ICMP, TCP, UDP, IGMPv1/2, IGMPv3 query/record/report, DHCP and its option parser, LLDP TLVs) is verified on its own against a total contract: every index, slice, nil dereference, type assertion, make and division is proved unable to panic, every loop has an inductive invariant and a strictly decreasing variant bounded by the input, and every make() is proved to allocate at most max(4096, len(input)) elements. Callees are used through their contracts only.",
   note="Time is decided as termination with an input-bounded variant, memory as a per-allocation bound (append growth is not bounded separately). encoding/binary.Read and bytes.Buffer.Write are assumed contracts keyed by the static target type; binary.BigEndian.* and bytes.NewBuffer/Len are executed from GOROOT source. " + TB,
   technique="contract-based deductive verification: safety + termination obligations from symbolic execution of go/ssa, QF_AUFBV, z3/cvc5",
   design="DESIGN.md section 4 C08"),
 "C18": dict(
   text="Deductive proof by induction over all call histories: each of the 16 setters has a two-state contract (own mask bit set, own value bit = polarity, every other bit unchanged, proved for all 2^64 data/mask states), a lemma function proves that the ghost words touched/last of the statement are an invariant preserved by every operation and established by the constructor, and the match-field constructor is proved to carry data and mask into an NXM_NX_CT_STATE field (class 1, field 105, masked, 8 bytes).",
   note="Flag-to-bit mapping is the OVS CS_* numbering written as literals in the contracts. " + TB,
   technique="contract-based deductive verification: two-state postconditions + inductive ghost-state lemma, QF_BV, z3/cvc5",
   design="DESIGN.md section 4 C18"),
 "C19": dict(
   text="Deductive proof for all inputs: every Decoder read returns the big-endian value at the cursor and advances by exactly its width; every Encoder Put* appends exactly the big-endian bytes and preserves earlier contents (frame clause appends); alignment skips reach the next multiple of 8 from the enclosing message start, by at most 7, never backwards; SliceDecoder window and base offset; symmetry is proved as the inductive step over ALL encoder states (lemmaSymN) plus one mixed sequence; Header.Decode is proved to return an error for < 8 bytes with the deferred recover modelled (panic paths run the real deferred closure).",
   note="bytes.Buffer.Write/WriteByte and bytes.Repeat are assumed contracts (append a copy; n zero bytes); binary.BigEndian.* and Buffer.Len/Bytes/Reset are executed from their GOROOT source. " + TB,
   technique="contract-based deductive verification: WP over go/ssa with byte-memory model, QF_AUFBV, z3/cvc5",
   design="DESIGN.md section 4 C19"),
 "C16": dict(
   text="Deductive proof for all inputs (no bound): every bit-range helper (mask, offset/width word, decode, both range "
        "constructors) is verified against a QF_BV postcondition taken from the property statement; the two-description "
        "and round-trip parts are lemma functions verified against the callee contracts only.",
   note="Ranges are quantified symbolically over 0<=first<=last<=31 and ofs<1024, 1<=width<=64 (64-bit ints as bit-vectors). " + TB,
   technique="contract-based deductive verification: WP/symbolic execution over go/ssa, QF_BV obligations, z3/cvc5",
   design="DESIGN.md section 4 C16"),
 "C05": dict(
   text="Deductive proof, per kind, by symbolic execution of the real encoder followed by the real decoder and the real encoder again (lemma functions generated by `govc genrt`, contracts `inlinecalls`): for 76 leaf kinds (every match-field payload type, every fixed-layout action, instruction header kinds, stats/request bodies, vendor payloads, header-only messages) lemmaRT<T> proves for a symbolic well-formed value followed by symbolic trailing bytes: decode succeeds, every exported field of the result equals the original's (byte slices compared by length and content), the decoder consumed exactly size(v) bytes (trailing bytes are irrelevant to the result), and re-encoding reproduces the bytes; for 76 constructors lemmaDisp<NewX> proves that the value a constructor builds, once encoded, is decoded by the dispatching decoder (DecodeMatchField / DecodeAction / DecodeInstr / Parse) into the same dynamic kind with the same header fields and that re-encoding reproduces the bytes. Element lists: the list decoders' contracts (C07) prove that each element decoder is applied at the offset where the previous element's size ended, so position-independence follows from the 'consumed exactly size(v), ignores the rest' postcondition of each leaf lemma.",
   note="Not covered by a lemma: container kinds whose round trip needs an inductive invariant over element bytes (Match with its field list, FlowMod/GroupMod/PacketOut/MultipartReply with element lists, NXActionConjunction-style learn specs, TunMetadata fields) - their sizes/lengths/types are covered by C01/C02/C06/C13 and their decoders by C07/C12, but 'decode(encode(v)) == v' for them is NOT proved here. Two constructors (NXM_0 ARP SPA/TPA) fail their dispatch lemma: known findings. " + TB,
   technique="contract-based deductive verification: generated round-trip lemma functions executed symbolically (encoder;decoder;encoder of the real code inlined), byte memories with interval reasoning, QF_AUFBV, z3/cvc5",
   design="DESIGN.md section 4 C05"),
 "C09": dict(
   text="Deductive proof by lemma functions over the real codecs (symbolic field values, symbolic payload lengths up to the 16-bit frame limit): (a) leaf kinds ARP, ICMP, UDP, TCP (with options), VLAN, IGMPv1/2, IPv6 Option and FragmentHeader: decode(encode(v)) has equal fields, consumed size equals size(v), re-encoding reproduces the bytes, sub-byte fields within their lanes; (b) composite frames Ethernet[/VLAN tag with VID != 0]/IPv4(IHL 5..15 with options)/{UDP, ICMP, other}, Ethernet/ARP, Ethernet/other ethertype, Ethernet/IPv6 with extension chains {none, routing, fragment, routing+fragment, hop-by-hop with one option} and payload {UDP, ICMPv6, other}: the decoder picks the payload kind from the ethertype after the tag, the IPv4 protocol number and the last next-header byte of the chain, every field of every layer (VLAN PCP/DEI/VID, IPv4 version/IHL/DSCP/ECN/flags/fragment offset, IPv6 class/flow label, fragment offset/more flag) is recovered and the frame re-encodes to the same bytes. The IPv6 chain loops are unrolled with a proved unwinding obligation (complete for the stated chain shapes).",
   note="NOT proved here (no lemma): IGMPv3 query/report/group record, DHCP, LLDP, hop-by-hop headers with more than one option, and IPv6 chains that repeat a header kind; for these kinds only safety/termination (C08), ownership (C12) and size consistency (C06/C13) are proved. Priority tags (VLAN id 0) are two known findings (the type cannot represent them). Well-formedness assumed by the lemmas is written out in the contracts (ethwf/ip4wf/ip6base: address lengths, field widths, options length = 4*IHL-20, chain consistent with next-header bytes). " + TB,
   technique="contract-based deductive verification: composite round-trip/demux lemma functions executed symbolically over the real encoders and decoders, loop unrolling with unwinding obligations, byte memories with interval reasoning, QF_AUFBV, z3/cvc5",
   design="DESIGN.md section 4 C09"),
 "C03": dict(
   text="Deductive proof against an independent statement of the wire formats: spec/layouts.tbl (transcribed from OpenFlow 1.3.5, nicira-ext.h and EXT-230, only the Go field names come from the library) is compiled by tools/gen_layout_contracts.py into postconditions on the real MarshalBinary of 72 kinds (every action, instruction, match-field payload, the fixed part of flow-mod, group-mod, bucket, packet-out, port-mod, multipart request, stats requests, Nicira actions and vendor bodies, bundle bodies): for ALL field values each supplied value is proved to sit at its specified offset, width and byte order, constants (type codes, vendor id, version 4) and own-length fields are as specified, pad bytes are zero (given the library-private pad storage is zero), and the facts survive the element loops (they are loop invariants of the encoders). Nested elements and list order: proved on instances - flow-mod (match field + goto-table + apply-actions{output}), group-mod (bucket{output}), packet-out (output + payload), instruction with three actions added by append and prepend, match with two fields (one masked), bucket with two actions - whose complete encodings are compared byte for byte with the layout the specification prescribes for that shape, all values symbolic.",
   note="Bounded part (labelled bounded, not counted as proved for all shapes): placement and order of list elements and nested children is decided only for the instance shapes above (list lengths 1-3); for arbitrary lists the proofs cover the fixed part, the total length (C06/C13) and each element kind's own layout, not the k-th element's offset. Switch-originated kinds are checked on the decoder side (C04). Two known findings (port/queue stats requests use the OpenFlow 1.0 layout). " + TB,
   technique="contract-based deductive verification: layout postconditions generated from a specification table onto the real encoders (with loop invariants), plus symbolic execution of instance lemmas, QF_AUFBV, z3/cvc5",
   design="DESIGN.md section 4 C03"),
 "C04": dict(
   text="Deductive proof, decoder side of the same specification table: for 75 kinds the real UnmarshalBinary is proved, for an input array of symbolic length and content, to store in every field exactly the big-endian value found at the offset the specification assigns to it (fixed parts of every message, all action/instruction/match-payload/stats/port kinds, Nicira and bundle bodies; offsets after a variable-size child are expressed with the decoded child's size), fixed-size kinds are proved to accept every input that holds the whole element with the specified constants and length, and Parse is proved to yield the message kind named by the header's type byte for every type code it supports (error vs experimenter error by the error type). Nine known findings: port-stats, queue-stats and table-stats replies are decoded with their OpenFlow 1.0 layouts.",
   note="Not proved: that the k-th element of a list is decoded from offset base + sizes of its predecessors for arbitrary lists (instance level only: the C05 container lemmas), the multipart-reply body dispatch by reply type, hello elements, experimenter-error layout; the packet payload of packet-in is C09's subject. Acceptance of conformant variable-size messages is proved only as 'no error path other than the documented length checks' by C07 (totality), not as a positive acceptance statement. " + TB,
   technique="contract-based deductive verification: layout postconditions generated from a specification table onto the real decoders, dispatch postconditions on Parse, QF_AUFBV, z3/cvc5",
   design="DESIGN.md section 4 C04"),
}

NOT_YET = {
 "C10": "not applicable with contract-based deductive verification as built here: the property quantifies over scheduler interleavings of the reader goroutine, 25 parser goroutines and the consumer, over all partitions of the byte stream into reads and over connection failures; util/stream.go consists of goroutines, channels and select, which are outside the verifier's subset (reported out-of-subset, not skipped), and a per-function contract cannot state 'for every interleaving'. The sequential facts it rests on are proved under other properties (parsed messages do not alias the recycled buffer: C12; frames are exactly size bytes with a correct length prefix: C01/C06) but composing them with channel semantics is an argument, not a check (DESIGN.md section 5).",
 "C11": "not applicable: all schedules of any number of producer goroutines and the writer goroutine; the outbound path is a range over a channel in a goroutine (outside the subset). What is sequential about it - one message's encoding is exactly size bytes, is produced by one MarshalBinary call and is not changed by encoding - is proved by C01/C06/C13; the per-producer FIFO order is a property of Go channels that a contract would have to assume wholesale (DESIGN.md section 5).",
 "C17": "not applicable: NewMatchField computes value and mask with math/big (Lsh, And, Cmp, BitLen, FillBytes) on fields of 48 to 128 bits and beyond; the verifier's term language is fixed-width bit-vectors of at most 64 bits with 64-bit constants, so every part of the property (window placement, mask = exactly the window, oversize input is an error) would sit inside assumed contracts for big.Int and nothing would be proved about the real code (DESIGN.md section 5). The 32-bit register constructor it is compared with is covered by C15/C16.",
}

def main():
    props = [json.loads(l) for l in open("/verif/properties.jsonl")]
    checks, na = [], []
    for p in props:
        pid = p["id"]
        if pid in CLAIMS:
            c = CLAIMS[pid]
            checks.append({
                "property_id": pid,
                "quick_cmd": f"bin/govc check {pid} --tier quick",
                "thorough_cmd": f"bin/govc check {pid} --tier thorough",
                "evidence_file": f"/verif/evidence/{pid}.json",
                "replay_cmd_template": "bin/govc replay {path}",
                "engine": "govc",
                "level_claimed": {"category": "proof", "text": c["text"], "design_ref": c["design"]},
                "level_note": c["note"],
                "technique": c["technique"],
            })
        else:
            na.append({"property_id": pid, "reason": NOT_YET.get(pid, "not claimed (see DESIGN.md section 5)")})
    m = {
        "version": 1,
        "setup_cmd": "cd /verif/govc && GOFLAGS=-mod=mod GOPROXY=off GOSUMDB=off GOTOOLCHAIN=local go build -o /verif/bin/govc .",
        "hooks": {
            "guard": "verif",
            "enable": "-tags=verif (govc loads /repo with this tag; contracts are //@ comments in <pkg>/zz_contracts*_verif.go, lemma functions in zz_lemmas_verif.go)",
            "baseline_off_cmd": "cd /repo && GOFLAGS=-mod=mod GOPROXY=off GOSUMDB=off GOTOOLCHAIN=local go test -json -vet=off -count=1 -timeout 25m ./...",
            "source_commits": [l.split()[0] for l in HOOK_COMMITS],
            "add_only": True,
        },
        "engines": [{"name": "govc", "path": "/verif/govc", "serves_properties": sorted(CLAIMS), "kind_free_text":
                     "self-built deductive verifier for Go: verification conditions by symbolic execution of go/ssa of the real source, "
                     "contracts as //@ comments in verif-tagged files in /repo, obligations discharged by z3 5.1.0 / cvc5 1.0.3 / z3 4.8.12, "
                     "counterexamples replayed on the real code via go test -overlay"}],
        "checks": checks,
        "notes": "See DESIGN.md. known_findings.txt lists recorded findings and fix: commits. selftest/ holds must-fail mutants; seeded/ holds independently written property-breaking changes.",
        "not_applicable": na,
    }
    json.dump(m, open("/verif/MANIFEST.json", "w"), indent=1)
    print("checks:", [c["property_id"] for c in checks])

main()
