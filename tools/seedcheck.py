#!/usr/bin/env python3
"""Confirms and files a sub-agent-written property-breaking change.
usage: seedcheck.py <worktree> <out-dir> [<out-dir> ...]
For each out-dir (patch.diff, demo_test.go, meta.json): in the scratch worktree confirm that the change builds, the
existing suite passes with it, the demo fails with it and passes without it; then apply it to /repo, run the
property's quick check (expect a VIOLATION), undo it, and file everything under /verif/seeded/<id>/."""
import json, os, re, shutil, subprocess, sys
ENV = dict(os.environ, GOFLAGS="-mod=mod", GOPROXY="off", GOSUMDB="off", GOTOOLCHAIN="local")
PK = ["./openflow13/", "./protocol/", "./common/", "./util/", "./ofbase/"]

def sh(cmd, cwd, env=ENV, timeout=900):
    r = subprocess.run(cmd, cwd=cwd, env=env, capture_output=True, text=True, timeout=timeout)
    return r.returncode, (r.stdout + r.stderr)

def main():
    wt = sys.argv[1]
    for d in sys.argv[2:]:
        sid = os.path.basename(d.rstrip('/'))
        meta = json.load(open(os.path.join(d, 'meta.json')))
        prop = meta['property']
        pkgdir = meta.get('demo_pkg_dir', 'openflow13')
        patch = os.path.abspath(os.path.join(d, 'patch.diff'))
        demo = os.path.join(d, 'demo_test.go')
        ran = {}
        sh(['git', 'checkout', '--', '.'], wt)
        for f in os.listdir(os.path.join(wt, pkgdir)):
            if f.startswith('zz_seed_demo'):
                os.remove(os.path.join(wt, pkgdir, f))
        rc, out = sh(['git', 'apply', patch], wt)
        if rc != 0:
            print(sid, 'PATCH DOES NOT APPLY', out[:300]); continue
        rc, out = sh(['go', 'build', './...'], wt)
        ran['build_with_change'] = rc == 0
        rc, out = sh(['go', 'test', '-vet=off', '-count=1'] + PK, wt)
        ran['suite_passes_with_change'] = rc == 0
        tgt = os.path.join(wt, pkgdir, 'zz_seed_demo_test.go')
        shutil.copy(demo, tgt)
        m = re.search(r'func (TestSeeded\w+)', open(demo).read())
        tname = m.group(1) if m else 'TestSeeded'
        rc, out = sh(['go', 'test', '-vet=off', '-count=1', '-run', '^' + tname + '$', './' + pkgdir + '/'], wt)
        ran['demo_fails_with_change'] = rc != 0 and ('FAIL' in out or 'panic' in out)
        ran['demo_output_with_change'] = out[-800:]
        sh(['git', 'apply', '-R', patch], wt)
        rc, out = sh(['go', 'test', '-vet=off', '-count=1', '-run', '^' + tname + '$', './' + pkgdir + '/'], wt)
        ran['demo_passes_without_change'] = rc == 0
        os.remove(tgt)
        sh(['git', 'checkout', '--', '.'], wt)
        confirmed = all(ran[k] for k in ('build_with_change', 'suite_passes_with_change', 'demo_fails_with_change', 'demo_passes_without_change'))
        # against /repo
        det = {}
        if confirmed:
            rc, out = sh(['git', 'status', '--porcelain'], '/repo')
            if out.strip():
                print('REPO NOT CLEAN, skipping detection run'); 
            else:
                rc, out = sh(['git', 'apply', patch], '/repo')
                try:
                    if rc == 0:
                        tmpd = '/dev/shm/seedrun-' + sid
                        os.makedirs(tmpd, exist_ok=True)
                        shutil.copy('/verif/known_findings.txt', tmpd)
                        rc2, out2 = sh(['/verif/bin/govc', 'check', prop, '--no-evidence'], '/verif', env=dict(ENV, GOVC_VERIF_DIR=tmpd))
                        viol = [l for l in out2.splitlines() if l.startswith('VIOLATION')]
                        det = {'check_cmd': 'bin/govc check %s --tier quick' % prop, 'exit': rc2, 'violations': viol[:8], 'detected': rc2 == 1 and bool(viol),
                               'replayed_on_real_code': any('reproduced-on-real-code' in l for l in viol)}
                        shutil.rmtree(tmpd, ignore_errors=True)
                    else:
                        det = {'error': 'patch does not apply to /repo: ' + out[:200]}
                finally:
                    sh(['git', 'checkout', '--', '.'], '/repo')
        dst = os.path.join('/verif/seeded', sid)
        os.makedirs(dst, exist_ok=True)
        if confirmed:
            shutil.copy(patch, os.path.join(dst, 'patch.diff'))
            shutil.copy(demo, os.path.join(dst, 'demo_test.go'))
            meta2 = {'id': sid, 'property': prop, 'summary': meta.get('summary'), 'needs': meta.get('needs'), 'demo_pkg_dir': pkgdir,
                     'files_touched': meta.get('files_touched'), 'confirmed': ran, 'detection': det,
                     'what_was_run': 'tools/seedcheck.py: git apply in scratch worktree; go build ./...; go test (5 packages); demo test with and without the change; then git -C /repo apply, bin/govc check, git -C /repo checkout -- .'}
            json.dump(meta2, open(os.path.join(dst, 'meta.json'), 'w'), indent=1)
        else:
            shutil.rmtree(dst, ignore_errors=True)
        print(sid, 'confirmed' if confirmed else 'NOT-CONFIRMED ' + json.dumps({k: v for k, v in ran.items() if k != 'demo_output_with_change'}), '| detected:', det.get('detected'), '| replayed:', det.get('replayed_on_real_code'))
        for v in det.get('violations', [])[:3]:
            print('    ', v[:220])
main()
